"""Client side of the zygotes: start one per hash seed, submit jobs."""
import atexit
import os
import shutil
import socket
import subprocess
import sys
import tempfile

from .zygote import send_msg, recv_msg

VERIF = os.path.dirname(os.path.dirname(os.path.abspath(__file__)))
PYTHON = os.environ.get("VERIF_PYTHON", "/venv/bin/python")


class HarnessError(Exception):
    """Anything that is the machinery's fault (dead child, timeout, wrong import path).
    Never a VIOLATION, never a pass."""


def repo_path():
    return os.path.abspath(os.environ.get("VERIF_REPO", "/repo"))


def _no_aslr():
    """preexec_fn: switch address-space randomisation off for the zygote (and so for every child it forks).
    Memory addresses - and with them which freed address the next object re-uses - are then the same in every
    zygote instance, so that code under test which keys something on id() behaves the same in a replay."""
    try:
        import ctypes
        libc = ctypes.CDLL(None, use_errno=True)
        libc.personality(0x0040000)   # ADDR_NO_RANDOMIZE
    except Exception:
        pass


class ZygotePool:
    def __init__(self, seeds, repo=None):
        self.repo = repo or repo_path()
        self.seeds = list(seeds)
        base = "/dev/shm" if os.path.isdir("/dev/shm") and os.access("/dev/shm", os.W_OK) else None
        self._sweep_stale(base or tempfile.gettempdir())
        self.dir = tempfile.mkdtemp(prefix="pcsim-", dir=base)
        with open(os.path.join(self.dir, "owner.pid"), "w") as f:
            f.write(str(os.getpid()))
        self.procs = {}
        self.paths = {}
        self.owner = os.getpid()
        atexit.register(self.close)
        env = dict(os.environ)
        env["PYTHONPATH"] = self.repo + os.pathsep + VERIF
        env.pop("PYCAPTION_DEFAULT_LANG", None)
        env["PYTHONDONTWRITEBYTECODE"] = "1"
        for h in self.seeds:
            e = dict(env)
            e["PYTHONHASHSEED"] = str(h)
            path = os.path.join(self.dir, "z%d.sock" % h)
            errf = open(os.path.join(self.dir, "z%d.err" % h), "wb")
            p = subprocess.Popen([PYTHON, "-c", "from sim import zygote; zygote.main()", path],
                                 env=e, stdout=subprocess.PIPE, stderr=errf, cwd=VERIF, preexec_fn=_no_aslr)
            errf.close()
            self.procs[h] = p
            self.paths[h] = path
        want = os.path.join(self.repo, "pycaption") + os.sep
        for h, p in self.procs.items():
            line = p.stdout.readline().decode("utf-8", "replace").strip()
            if not line.startswith("READY "):
                try:
                    err = open(os.path.join(self.dir, "z%d.err" % h), "rb").read().decode("utf-8", "replace")[-1500:]
                except OSError:
                    err = ""
                self.close()
                raise HarnessError("zygote for hash seed %s did not start: %r %s" % (h, line, err))
            got = line[6:]
            if not os.path.realpath(got).startswith(os.path.realpath(want)):
                self.close()
                raise HarnessError("zygote imported pycaption from %s, expected under %s" % (got, want))

    @staticmethod
    def _sweep_stale(base):
        """Socket directories of runs that were killed (their owner process is gone) are removed."""
        try:
            for name in os.listdir(base):
                if not name.startswith("pcsim-") or name.startswith("pcsim-selftest"):
                    continue
                d = os.path.join(base, name)
                try:
                    with open(os.path.join(d, "owner.pid")) as f:
                        pid = int(f.read().strip() or "0")
                    os.kill(pid, 0)
                except (OSError, ValueError):
                    if os.path.exists(os.path.join(d, "owner.pid")):
                        shutil.rmtree(d, ignore_errors=True)
        except OSError:
            pass

    def submit(self, seed, job, timeout=240.0):
        s = socket.socket(socket.AF_UNIX, socket.SOCK_STREAM)
        s.settimeout(timeout)
        try:
            s.connect(self.paths[seed])
            job = dict(job)
            job.setdefault("timeout", timeout - 10.0)
            send_msg(s, job)
            res = recv_msg(s)
        except (OSError, EOFError, socket.timeout) as e:
            raise HarnessError("job in child of zygote %s failed: %s: %s" % (seed, type(e).__name__, e))
        finally:
            s.close()
        if not res.get("ok"):
            raise HarnessError("child reported: %s\n%s" % (res.get("error"), res.get("trace", "")))
        return res

    def close(self):
        if os.getpid() != self.owner:
            return
        for p in self.procs.values():
            try:
                p.kill()
                p.wait(timeout=5)
            except Exception:
                pass
        self.procs = {}
        shutil.rmtree(self.dir, ignore_errors=True)
