"""C20: format detection under storage faults, and on pycaption's own fault-free output (DESIGN 5).

Simulated pipeline: build a benign caption set -> write it with one of the eight writers ->
put into the blob store -> a storage fault strikes (or not) -> get -> detect_format -> read.
The blob store and its fault model are the stub; detect_format, the six sniffers, the writers
and readers are the real code, executed in forked children of the zygotes."""
import concurrent.futures as cf
import json
import multiprocessing
import os
import random
import sys
import time

from . import canon, docs
from .ops import DOCUMENTED_ORDER, corpus
from .pool import ZygotePool, HarnessError, VERIF

ZP = None
WRITER_FORMAT = {"SRTWriter": "SRTReader", "WebVTTWriter": "WebVTTReader", "DFXPWriter": "DFXPReader",
                 "SinglePositioningDFXPWriter": "DFXPReader", "LegacyDFXPWriter": "DFXPReader",
                 "SAMIWriter": "SAMIReader", "MicroDVDWriter": "MicroDVDReader", "SCCWriter": "SCCReader"}
MARKER_ALPHABET = list("0123456789\n{}<>/-: \t\r\0\ufeff\u2028\u2029\x0c\x0b\x85\x1c\udc80\u0130\u00df\u0663\u00b2") + list("WEBVTT") + list("sami") + list("tt") + list("Scenarist_SCC V1.0")
ENCODINGS = ["bom", "crlf", "bom+crlf", "cr", "nul_padding", "leading_newlines", "trailing_space_lines", "upper", "lower",
             "double_bom", "bom_mid",
             # a stray leading character whose case mapping changes the length of the string (U+0130), that cannot be
             # encoded (lone surrogate), NUL, a non-ASCII digit
             "lead_many_newlines", "lead_many_spaces",
             "lead:\u0130", "lead:\u0130\u0130\u0130", "lead:\u00df", "lead:\udc80", "lead:\x00", "lead:\u0663", "lead: "]
FAULT_KINDS = ["transfer_encoding", "torn_prefix", "torn_byte_prefix", "torn_suffix", "lost_write", "stale_tail", "misdirected_concat",
               "duplicated_block", "dropped_block", "corrupted_char", "inserted_char", "deleted_char"]


# ----------------------------------------------------------------- fault model (pure)
def apply_fault(f, docs_by_name):
    """f = [kind, docname, *params] -> the blob a reader of the store would get."""
    kind, a = f[0], docs_by_name[f[1]]
    if kind == "none":
        return a
    if kind == "torn_prefix":
        return a[: f[2]]
    if kind == "torn_suffix":
        return a[f[2]:]
    if kind == "torn_byte_prefix":
        return a.encode("utf-8")[: f[2]].decode("utf-8", "replace")
    if kind == "transfer_encoding":
        # what a store / transfer layer does to text: byte-order mark, line-ending conversion, block padding,
        # case folding of a case-insensitive medium; then (optionally) torn at offset k of the transformed text
        enc, k = f[2], f[3]
        t = a
        if enc in ("crlf", "bom+crlf"):
            t = t.replace("\r\n", "\n").replace("\n", "\r\n")
        if enc == "cr":
            t = t.replace("\r\n", "\n").replace("\n", "\r")
        if enc in ("bom", "bom+crlf"):
            t = "\ufeff" + t
        if enc == "double_bom":
            t = "\ufeff\ufeff" + t
        if enc == "bom_mid":
            t = t[: len(t) // 2] + "\ufeff" + t[len(t) // 2:]
        if enc == "nul_padding":
            t = t + "\0" * (512 - len(t) % 512)
        if enc == "leading_newlines":
            t = "\n\n" + t
        if enc == "trailing_space_lines":
            t = "\n".join(x + " " for x in t.split("\n"))
        if enc == "upper":
            t = t.upper()
        if enc == "lower":
            t = t.lower()
        if enc.startswith("lead:"):
            t = enc[5:] + t
        if enc == "lead_many_newlines":
            t = "\n" * 1500 + t      # a sparse / padded block before the document (also exercises depth-per-line code)
        if enc == "lead_many_spaces":
            t = " " * 70000 + t
        return t if k is None else t[:k]
    if kind == "lost_write":
        return "" if f[2] is None else docs_by_name[f[2]]
    if kind == "stale_tail":          # new document a[:k] written over old b without truncation
        b = docs_by_name[f[2]]
        k = f[3]
        return a[:k] + b[k:]
    if kind == "misdirected_concat":
        return a + f[3] + docs_by_name[f[2]]
    lines = a.split("\n")
    if kind == "duplicated_block":
        i, j = f[2], f[3]
        return "\n".join(lines[:j] + lines[i:j] + lines[j:])
    if kind == "dropped_block":
        i, j = f[2], f[3]
        return "\n".join(lines[:i] + lines[j:])
    if kind == "corrupted_char":
        return a[: f[2]] + f[3] + a[f[2] + 1:]
    if kind == "inserted_char":
        return a[: f[2]] + f[3] + a[f[2]:]
    if kind == "deleted_char":
        return a[: f[2]] + a[f[2] + 1:]
    raise ValueError("fault kind " + str(kind))


def expand(fspec, docs_by_name):
    """Enumerating fault specs -> list of concrete faults."""
    kind, name = fspec[0], fspec[1]
    a = docs_by_name[name]
    if kind == "all_prefixes":
        return [["torn_prefix", name, k] for k in range(0, len(a))]
    if kind == "all_suffixes":
        return [["torn_suffix", name, k] for k in range(1, len(a) + 1)]
    if kind == "all_byte_prefixes":
        b = a.encode("utf-8")
        # only offsets that fall inside a multi-byte sequence (the others equal a char prefix)
        return [["torn_byte_prefix", name, k] for k in range(1, len(b)) if (b[k] & 0xC0) == 0x80]
    if kind == "all_encodings":
        out = []
        for enc in ENCODINGS:
            out.append(["transfer_encoding", name, enc, None])
            out += [["transfer_encoding", name, enc, k] for k in range(0, min(len(a), 48))]
            if enc == "lead_many_newlines":
                out += [["transfer_encoding", name, enc, k] for k in (999, 1000, 1001, 1499, 1500, 1501, 1502, 1510)]
        return out
    if kind == "all_line_drops":
        n = len(a.split("\n"))
        return [["dropped_block", name, i, i + 1] for i in range(n)]
    if kind == "all_line_dups":
        n = len(a.split("\n"))
        return [["duplicated_block", name, i, i + 1] for i in range(n)]
    return [fspec]


def classify(res, blob):
    """-> None if consistent with C20, else a short anomaly tag."""
    df, own = res
    if blob == "":
        if df == ["exc", "CaptionReadNoCaptions"]:
            return None
        return "empty string: expected CaptionReadNoCaptions, got %s" % (df,)
    if df[0] == "exc":
        return "raised %s" % df[1]
    expected = None
    for name, o in zip(DOCUMENTED_ORDER, own):
        if o == 1:
            expected = name
            break
    if df[1] != expected:
        return "returned %s, first accepting sniffer in documented order is %s" % (df[1], expected)
    return None


# ------------------------------------------------------------- child-side job (zygote)
def child_detect_faults(job):
    dbn = job["docs"]
    faults = []
    for fs in job["faults"]:
        faults += expand(fs, dbn)
    from .ops import detect_one, _classes
    R, _ = _classes()
    # Blobs are created just in time and dropped right after being sniffed, the way a long-running service
    # handles one document after the other (a freed string's address is reused by the next one).
    # "reversed": same blobs, opposite order (and another hash seed): a sniffer whose answer depends on what it
    # was shown before, or on hash order, gives a different result vector
    order = range(len(faults) - 1, -1, -1) if job.get("order") == "reversed" else range(len(faults))
    res = [None] * len(faults)
    for i in order:
        b = apply_fault(faults[i], dbn)
        res[i] = detect_one(b, R)
        del b
    anomalies = []
    by_kind = {}
    sig = []
    accepted = 0
    multi = 0
    keep_blobs = bool(job.get("want_blobs"))
    blobs = []
    for f, r in zip(faults, res):
        b = apply_fault(f, dbn)
        if keep_blobs:
            blobs.append(b)
        by_kind[f[0]] = by_kind.get(f[0], 0) + 1
        n_acc = sum(1 for o in r[1] if o == 1)
        accepted += 1 if n_acc else 0
        multi += 1 if n_acc > 1 else 0
        sig.append("%s|%s" % (r[0][1], "".join("x" if isinstance(o, str) else str(o) for o in r[1])))
        tag = classify(r, b)
        if tag is not None:
            anomalies.append({"fault": f, "blob": b if len(b) <= 4000 else b[:4000], "blob_len": len(b), "tag": tag, "result": r})
    out = {"n": len(faults), "by_kind": by_kind, "anomalies": anomalies[:50], "n_anomalies": len(anomalies),
           "digest": canon.digest("\n".join(sig)), "accepted": accepted, "multi_accepted": multi,
           "distinct_outcomes": sorted(set(sig))[:200]}
    if job.get("want_sig"):
        out["sig"] = sig
        out["blobs_for_sig"] = [b if len(b) <= 4000 else b[:4000] for b in blobs] if job.get("want_blobs") else None
    return out


# ---------------------------------------------------------------------- benign sets
BENIGN_WORDS = ("alpha beta gamma delta lorem ipsum dolor sit amet hello world caption line two "
                "quick brown fox over under yes no ok then again music wait what now "
                "42 3rd 1 it's (laughs) MAN: rock&roll a<b x>y café ♪ naïve 100% [door] ... -- ¿qué? "
                "\"quoted\" 'single' 😀 a&amp;b &lt; tab\there C:\\dir 5/6 #1 @home = "
                "… œuvre €5 wait… ½ ™ ñ ¡hola! abcdefghijklmnopqrstuvwxyz ABCDEFGHIJKLMNOPQRSTUVWXYZ012345 "
                "]]> <![CDATA[ <!-- İstanbul ß ٣ ² 007 - {} {1} \\N "
                # unbroken tokens wider than one SCC row (32 columns): a writer that lays text out in rows has to split them
                "https://captions.example.org/a/rather/long/path well-known-state-of-the-art-never-ending-story "
                "Donaudampfschifffahrtsgesellschaftskapitän #averyveryverylonghashtagwithoutanybreaks").split(" ")
# deliberately absent: other formats' markers ("-->", "WEBVTT", "<sami", "</tt>", "{1}{2}", the Scenarist header) as the
# property says, whitespace-only text nodes (a blank line inside a cue is the cue separator of SRT and WebVTT: on the unchanged tree
# SRT output with such a line is already unreadable - cue structure is C03's subject), "|" (MicroDVD's line separator: a cue made of nothing else is an empty cue - cue structure is C03's subject), and characters that str.splitlines() treats as line boundaries (VT, FF, FS-RS, NEL, LS, PS): how written
# text survives a parser is C03's subject


def benign_text(rng):
    n = rng.randint(1, 4) if rng.random() < 0.8 else rng.randint(5, 9)   # long lines get wrapped by the SCC writer
    return " ".join(rng.choice(BENIGN_WORDS) for _ in range(n))


def benign_recipe(rng, abs_units=False):
    """A caption set whose visible text carries no other format's marker.  Explored domain: cues >= 1 s long and
    >= 5 s apart (sub-frame / flash cues and overlapping pre-roll are degenerate timings that belong to C17/C06),
    first cue anywhere from 0 s to 99 h (SCC timecodes have two hour digits), fractional microseconds, 1-3 languages, now and then two cues with the
    same timespan (merged by several writers), large sets, odd style values, layouts in %% (and in px/em/c/pt when
    the writer is given the video size)."""
    nl = rng.choice([1, 1, 1, 2, 2, 3])
    layouts = [docs.gen_layout(rng, abs_units=abs_units and rng.random() < 0.6) for _ in range(rng.randint(0, 2))]
    if layouts and rng.random() < 0.15:
        layouts.append({"origin": [[rng.choice([0, 100, 120]), "%"], [rng.choice([0, 99, 150]), "%"]]})
    if rng.random() < 0.1:
        layouts.append({"origin": [[rng.choice([33.333333, 1e-05, 12.345678, 99.999]), "%"], [rng.choice([66.6666667, 0.001, 50.5]), "%"]],
                        "extent": [[rng.choice([10.00000001, 33.3333]), "%"], [rng.choice([5.55555, 20]), "%"]],
                        "padding": [[1.005, "%"], None, [2.5, "%"], [0.125, "%"]]})
    if rng.random() < 0.04:
        layouts += [{"origin": [[k, "%"], [k + 1, "%"]]} for k in range(3, 33, 2)]     # many distinct regions
    size = rng.random()
    ncaps = rng.randint(1, 4) if size < 0.95 else (rng.choice([100, 130]) if size < 0.993 else 1005)
    langs = []
    for li, lang in enumerate(rng.sample(docs.LANGS, nl)):
        # up to 99 h: SCC timecodes have two hour digits (large sets start early so that they stay below that)
        t = rng.choice([0, 0, 40, 1000, 5000, 6000, 65000, 3600000, 36000000, 90000000, 356000000]) if ncaps < 50 else rng.choice([0, 1000, 5000])
        caps = []
        n_here = ncaps if li == 0 else rng.randint(1, 3)
        for ci in range(n_here):
            dur = rng.choice([1000, 1500, 2500, 4000])
            nodes = []
            nlines = rng.randint(1, 2)
            for k in range(nlines):
                it = rng.random() < 0.25
                if it:
                    nodes.append({"t": "style", "start": True, "c": {"italics": True}})
                nodes.append({"t": "text", "c": benign_text(rng) if n_here < 50 else "w%d" % ci,
                              "layout": rng.choice(layouts) if layouts and rng.random() < 0.4 else None})
                if it:
                    nodes.append({"t": "style", "start": False, "c": {"italics": True}})
                if k < nlines - 1:
                    nodes.append({"t": "break"})
            frac = 0.5 if rng.random() < 0.05 else 0
            c = {"start": t * 1000 + frac, "end": (t + dur) * 1000 + frac, "nodes": nodes,
                 "style": "default" if rng.random() < 0.6 else rng.choice(
                     [{"italics": True}, {"color": "red"}, {"class": "c1"}, {"italics": False}, {"x-unknown": "v"},
                      {"bold": True, "underline": True}, {"text-align": "right"}, {"font-size": "12pt", "font-family": "Arial"}])}
            if layouts and rng.random() < 0.4:
                c["layout"] = rng.choice(layouts)
            caps.append(c)
            if rng.random() < 0.08 and n_here < 50:
                twin = {"start": c["start"], "end": c["end"], "nodes": [{"t": "text", "c": benign_text(rng)}], "style": "default"}
                caps.append(twin)      # same timespan: merged by the SRT / legacy DFXP / single-positioning writers
            t += dur + 5000 + rng.choice([0, 500, 7000])
        langs.append({"lang": lang, "captions": caps, "layout": rng.choice(layouts) if layouts and rng.random() < 0.3 else None})
    rec = {"langs": langs, "styles": "default" if rng.random() < 0.5 else rng.choice([
        {"c1": {"color": "blue", "font-size": "10pt"}}, {"c1": {"italics": True}, "p": {"text-align": "center"}}, {},
        {"c1": {"color": "rgb(255, 255, 0)", "font-family": "Courier New"}}, {"p": {"font-family": "Arial, sans-serif", "color": "#fff"}},
        {"c1": {"lang": langs[0]["lang"]}, "c 2": {"color": "red"}}, {"q\"x": {"color": "red"}, "a'b": {"italics": True}}])}
    if layouts and rng.random() < 0.2:
        rec["layout"] = rng.choice(layouts)
    return rec


def benign_ctor(rng, w):
    kw = {}
    if w != "LegacyDFXPWriter":
        if rng.random() < 0.3:
            kw["fit_to_screen"] = False
        if rng.random() < 0.4:
            kw["video_width"], kw["video_height"] = rng.choice([(640, 360), (1280, 720)])
        if rng.random() < 0.15:
            kw["relativize"] = False
            if rng.random() < 0.5:
                kw["fit_to_screen"] = False
    if w in ("DFXPWriter", "SinglePositioningDFXPWriter") and rng.random() < 0.3:
        kw["write_inline_positioning"] = True
    if w == "SinglePositioningDFXPWriter" and rng.random() < 0.4:
        kw["default_positioning"] = docs.gen_layout(rng, abs_units=False)
    return kw


# ---------------------------------------------------------------------- worker jobs
def work(args):
    try:
        return _work(args)
    except HarnessError:
        return _work(args)   # one retry: a child killed by an overloaded machine's timeout is not a property of the tree


def _work(args):
    import faulthandler
    faulthandler.dump_traceback_later(2400, exit=True)
    seed = args["hash_seed"]
    if args["kind"] == "pipelines":
        res = ZP.submit(seed, {"kind": "pipeline_batch", "pipelines": args["pipelines"]}, timeout=300)["results"]
        return {"kind": "pipelines", "pipelines": args["pipelines"], "results": res}
    res = ZP.submit(seed, {"kind": "detect_faults", "docs": args["docs"], "faults": args["faults"]}, timeout=600)
    # consistency: the same blobs in the opposite order in a child of another hash seed
    other = args.get("other_hash_seed")
    if other is not None:
        rev = ZP.submit(other, {"kind": "detect_faults", "docs": args["docs"], "faults": args["faults"], "order": "reversed"},
                        timeout=600)
        res["order_checked"] = res["n"]
        if rev["digest"] != res["digest"]:
            a = ZP.submit(seed, {"kind": "detect_faults", "docs": args["docs"], "faults": args["faults"], "want_sig": True,
                                 "want_blobs": True}, timeout=600)
            b = ZP.submit(other, {"kind": "detect_faults", "docs": args["docs"], "faults": args["faults"], "order": "reversed",
                                  "want_sig": True}, timeout=600)
            for i, (x, y) in enumerate(zip(a["sig"], b["sig"])):
                if x != y:
                    blob = a["blobs_for_sig"][i]
                    res["anomalies"].append({"fault": ["order"], "blob": blob, "blob_len": len(blob),
                                             "order_job": {"docs": args["docs"], "faults": args["faults"], "seeds": [seed, other]},
                                             "tag": "inconsistent: the same string sniffed in another order / under another hash seed gives %s instead of %s" % (y, x),
                                             "result": [x, y], "no_minimise": True})
                    break
    res["kind"] = "faults"
    res["job"] = {"faults": args["faults"], "docnames": sorted(args["docs"])}
    return res


def minimise_blob(zp, seed, blob, tag_key):
    """ddmin over characters while the same anomaly tag persists."""
    def bad(s):
        r = zp.submit(seed, {"kind": "detect_batch", "blobs": [s]})["results"][0]
        return classify(r, s) == tag_key
    if not bad(blob):
        return blob
    n = 2
    deadline = time.time() + 30
    while len(blob) >= 2 and time.time() < deadline:
        chunk = max(1, len(blob) // n)
        reduced = False
        for start in range(0, len(blob), chunk):
            cand = blob[:start] + blob[start + chunk:]
            if cand and bad(cand):
                blob = cand
                n = max(n - 1, 2)
                reduced = True
                break
        if not reduced:
            if chunk == 1:
                break
            n = min(len(blob), n * 2)
    return blob


def minimise_pipeline(zp, p, tag):
    """Shrink the caption set of a failing pipeline while the same kind of failure persists."""
    import copy
    from .minimize import recipe_variants
    if "recipe" not in p:
        return p
    key = tag.split(":")[0]

    def bad(q):
        r = zp.submit(0, {"kind": "pipeline_batch", "pipelines": [q]})["results"][0]
        t = judge_pipeline(q, r)
        return t is not None and t.split(":")[0] == key
    deadline = time.time() + 40
    cur = copy.deepcopy(p)
    progress = True
    while progress and time.time() < deadline:
        progress = False
        for rec in recipe_variants(cur["recipe"]):
            if time.time() > deadline:
                break
            q = copy.deepcopy(cur)
            q["recipe"] = rec
            if bad(q):
                cur = q
                progress = True
                break
    return cur


def write_replay(kind, body):
    d = os.path.join(VERIF, "replays")
    os.makedirs(d, exist_ok=True)
    body = dict(body)
    body["kind"] = "c20"
    body["property"] = "C20"
    body["what"] = kind
    name = "C20-%s-%s.json" % (kind, canon.digest(json.dumps(body))[:10])
    p = os.path.join(d, name)
    with open(p, "w") as f:
        json.dump(body, f, indent=1)
    return p


def replay(body, path):
    zp = ZygotePool([body.get("hash_seed", 0)])
    try:
        if body["what"] == "order":
            oj = body["order_job"]
            zp.close()
            zp = ZygotePool(sorted(set(oj["seeds"])))
            a = zp.submit(oj["seeds"][0], {"kind": "detect_faults", "docs": oj["docs"], "faults": oj["faults"]}, timeout=600)
            b = zp.submit(oj["seeds"][1], {"kind": "detect_faults", "docs": oj["docs"], "faults": oj["faults"], "order": "reversed"},
                          timeout=600)
            print("replay: forward digest %s, reversed/other-seed digest %s" % (a["digest"], b["digest"]))
            if a["digest"] != b["digest"]:
                print("VIOLATION property=C20 replay=%s" % path)
                sys.exit(1)
            sys.exit(0)
        if body["what"] == "detect":
            r = zp.submit(body.get("hash_seed", 0), {"kind": "detect_batch", "blobs": [body["blob"]]})["results"][0]
            tag = classify(r, body["blob"])
            print("replay: detect_format(%r) -> %s ; own sniffers %s ; %s" % (body["blob"][:200], r[0], r[1], tag))
            if tag is not None and tag == body["tag"]:
                print("VIOLATION property=C20 replay=%s" % path)
                sys.exit(1)
            sys.exit(0 if tag is None else 3)
        r = zp.submit(body.get("hash_seed", 0), {"kind": "pipeline_batch", "pipelines": [body["pipeline"]]})["results"][0]
        tag = judge_pipeline(body["pipeline"], r)
        print("replay: pipeline %s -> %s" % (body["pipeline"]["writer"], tag))
        if tag is not None and tag.split(":")[0] == body["tag"].split(":")[0]:
            print("VIOLATION property=C20 replay=%s" % path)
            sys.exit(1)
        sys.exit(0 if tag is None else 3)
    finally:
        zp.close()


def pipeline_matches(zp, finding, an):
    """Known findings are identified by the specific input that fails, so that a different
    violation of the same property is still reported."""
    m = finding.get("match", {})
    if m.get("matcher") != "scc_first_cue_flash":
        return False
    p = an["pipeline"]
    if p["writer"] != "SCCWriter" or "CaptionReadTimingError" not in an["tag"] or "Unsupported cue duration" not in an["tag"]:
        return False
    # differential: the same set with only its first cue lengthened by 3 s - or, for cues that start within their
    # own load time of 0 s and are clamped there, the whole set moved 10 s later as well - must write and read back
    # fine; then the failure is exactly "a cue at the start of the stream could not be advanced"
    import copy
    q = copy.deepcopy(p)
    first = q["recipe"]["langs"][0]["captions"][0]
    first["end"] = first["end"] + 3000000
    r = zp.submit(0, {"kind": "pipeline_batch", "pipelines": [q]})["results"][0]
    if judge_pipeline(q, r) is None:
        return True
    starts = [c["start"] for c in p["recipe"]["langs"][0]["captions"]]
    if min(starts) >= 2000000:
        return False
    q = copy.deepcopy(p)
    for c in q["recipe"]["langs"][0]["captions"]:
        c["start"] += 10000000
        c["end"] += 10000000
    q["recipe"]["langs"][0]["captions"][0]["end"] += 3000000
    r = zp.submit(0, {"kind": "pipeline_batch", "pipelines": [q]})["results"][0]
    return judge_pipeline(q, r) is None


def judge_pipeline(p, r):
    if "setup_exc" in r:
        return None  # the writer refused the set: not C20's business (counted)
    want = WRITER_FORMAT[p["writer"]]
    if r.get("text") == "":
        return None  # the writer produced no document at all (what detect_format must do with "" is the first sentence's business)
    if [m for m in r.get("text_markers", []) if m != want]:
        return None  # the captions' own text is accepted by another format's sniffer: "text that contains another format's marker"
    if "detect_exc" in r:
        return "own-output: detect_format raised %s on %s output" % (r["detect_exc"], p["writer"])
    if r.get("detected") != want:
        return "own-output: %s output detected as %s, expected %s" % (p["writer"], r.get("detected"), want)
    if "reread_exc" in r:
        return "own-output-read: %s could not read %s output: %s" % (want, p["writer"], r["reread_exc"])
    return None


# -------------------------------------------------------------------- orchestrator
def main(seed, tier, a):
    from .check import load_known
    global ZP
    t0 = time.time()
    evidence_path = a.evidence or os.path.join(VERIF, "evidence", "C20.json")
    try:
        rc = _run(seed, tier, a, t0, evidence_path)
    except HarnessError as e:
        print("HARNESS-ERROR %s" % str(e)[:2000])
        rc = 2
    except Exception:
        import traceback
        print("HARNESS-ERROR unexpected exception in the harness itself:\n%s" % traceback.format_exc()[-2000:])
        rc = 2
    sys.stdout.flush()
    sys.exit(rc)


def _run(seed, tier, a, t0, evidence_path):
    from .check import load_known
    global ZP
    quick = tier == "quick"
    rng = random.Random(seed)
    hseeds = [0, 1, 3, 5]
    zp = ZygotePool(hseeds)
    ZP = zp
    workers = a.workers
    C = corpus()
    n_pipe = a.histories or (1600 if quick else 40000)
    budget = a.budget or (60 if quick else 900)
    # ---- stage 1: fault-free pipelines (also the source of stored writer outputs)
    pipelines = []
    writers = sorted(WRITER_FORMAT)
    for i in range(n_pipe):
        w = writers[i % len(writers)] if i < 4 * len(writers) else rng.choice(writers)
        ctor = benign_ctor(rng, w)
        # absolute units only when the writer knows the video size and relativizes (otherwise it refuses, by design)
        abs_ok = "video_width" in ctor and ctor.get("relativize", True)
        rec = benign_recipe(rng, abs_units=abs_ok)
        if ctor.get("relativize") is False and ctor.get("fit_to_screen") is False and rng.random() < 0.5:
            # absolute values written as they are, including very large and very small ones
            big = {"origin": [[rng.choice([1000000, 1234567.891, 16, 0.004]), "px"], [rng.choice([2500000, 9, 0.0001]), "px"]],
                   "extent": [[rng.choice([3000000.5, 640]), "px"], [rng.choice([1e7, 360]), "px"]]}
            for l in rec["langs"]:
                for c in l["captions"][:2]:
                    c["layout"] = big
        call = {}
        if w in ("DFXPWriter", "SinglePositioningDFXPWriter", "LegacyDFXPWriter") and rng.random() < 0.3:
            # force= a language the set has (by index, in various spellings) or one it does not have
            call = rng.choice([{"force_idx": rng.randrange(3)}, {"force": "xx"}, {"force": rec["langs"][0]["lang"].upper()},
                               {"force": rec["langs"][-1]["lang"][:2]}])
        elif w == "WebVTTWriter" and rng.random() < 0.3:
            call = {"lang_idx": rng.randrange(3)}
        pipelines.append({"recipe": rec, "writer": w, "ctor": ctor, "call": call})
    # the recorded example of every open known finding is re-run each time, so that the KNOWN-FINDING line
    # does not depend on the seed (and disappears by itself once the defect is repaired)
    for f in load_known():
        if f.get("status") == "open" and f.get("property") == "C20" and f.get("example"):
            try:
                with open(os.path.join(VERIF, f["example"])) as fh:
                    ex_body = json.load(fh)
                if "pipeline" in ex_body:
                    pipelines.insert(0, ex_body["pipeline"])
            except OSError:
                pass
    ctx = multiprocessing.get_context("fork")
    ex = cf.ProcessPoolExecutor(max_workers=workers, mp_context=ctx)
    anomalies = []
    stats = {"pipelines": 0, "pipeline_setup_refused": 0, "blobs": 0, "accepted_blobs": 0, "multi_accepted_blobs": 0}
    by_kind = {}
    outcomes = {}
    digests = []
    stored = {}
    samples = []
    stopped_early = False
    try:
        B = 20
        futs = [ex.submit(work, {"kind": "pipelines", "pipelines": pipelines[k:k + B], "hash_seed": hseeds[(k // B) % len(hseeds)]})
                for k in range(0, len(pipelines), B)]
        for f in futs:
            r = f.result(timeout=900)
            for p, res in zip(r["pipelines"], r["results"]):
                stats["pipelines"] += 1
                if "setup_exc" in res:
                    stats["pipeline_setup_refused"] += 1
                    continue
                by_kind["none(fault-free pipeline)"] = by_kind.get("none(fault-free pipeline)", 0) + 1
                if [m for m in res.get("text_markers", []) if m != WRITER_FORMAT[p["writer"]]] or res.get("text") == "":
                    stats["pipelines_not_judged_foreign_marker_or_empty"] = stats.get("pipelines_not_judged_foreign_marker_or_empty", 0) + 1
                tag = judge_pipeline(p, res)
                outcomes["pipeline|%s|%s|%s" % (p["writer"], res.get("detected"), "read-ok" if "reread" in res else "read-exc")] = 1
                if tag is not None:
                    anomalies.append({"what": "pipeline", "tag": tag, "pipeline": p, "result": {k: v for k, v in res.items() if k != "text"}})
                else:
                    name = "out/%s/%d" % (p["writer"], len(stored))
                    if 0 < len(res["text"]) <= (3000 if quick else 6000):
                        stored[name] = res["text"]
                if len(samples) < 2:
                    samples.append({"pipeline": {"writer": p["writer"], "ctor": p["ctor"], "languages": [l["lang"] for l in p["recipe"]["langs"]]},
                                    "output_head": res["text"][:300], "detected": res.get("detected"), "reread": res.get("reread")})
        # ---- stage 2: storage faults on stored documents
        corpus_docs = {"corpus/" + k: v["text"] for k, v in C.items() if len(v["text"]) <= (3000 if quick else 100000)}
        names_c = sorted(corpus_docs)
        names_o = sorted(stored)
        rng.shuffle(names_c)
        rng.shuffle(names_o)
        if quick:
            # every format and every writer represented
            pick_c = []
            for fmt in ("dfxp", "sami", "srt", "webvtt", "microdvd", "scc"):
                pick_c += [n for n in names_c if n.startswith("corpus/" + fmt + "/")][:10]
            pick_o = []
            for w in writers:
                pick_o += [n for n in names_o if n.startswith("out/" + w + "/")][:8]
        else:
            pick_c, pick_o = names_c, names_o[:600]
        allnames = pick_c + pick_o
        alldocs = dict(corpus_docs)
        alldocs.update(stored)
        jobs = []
        # (a) enumerated: every torn-write offset, every single dropped / duplicated line
        for n in allnames:
            fs = [["all_prefixes", n], ["all_byte_prefixes", n], ["all_line_drops", n], ["all_line_dups", n], ["lost_write", n, None],
                  ["all_encodings", n]]
            if not quick:
                fs.append(["all_suffixes", n])
            jobs.append({"docs": {n: alldocs[n]}, "faults": fs})
        # (b) seeded: stale tail / misdirected write over ordered pairs, corruption from the marker alphabet
        pairs = []
        pool_names = allnames
        n_pairs = 5000 if quick else 100000
        for _ in range(n_pairs):
            x, y = rng.choice(pool_names), rng.choice(pool_names)
            pairs.append((x, y))
        for k in range(0, len(pairs), 40):
            d = {}
            fs = []
            for x, y in pairs[k:k + 40]:
                d[x] = alldocs[x]
                d[y] = alldocs[y]
                la = len(alldocs[x])
                for _ in range(8 if quick else 32):
                    fs.append(["stale_tail", x, y, rng.randint(0, la)])
                fs.append(["stale_tail", x, y, la])
                fs.append(["misdirected_concat", x, y, rng.choice(["", "\n", "\n\n"])])
                fs.append(["lost_write", x, y])
            jobs.append({"docs": d, "faults": fs})
        n_corrupt = 800000 if quick else 20000000
        per = 2000
        for k in range(0, n_corrupt, per):
            d = {}
            fs = []
            for _ in range(per):
                x = rng.choice(pool_names)
                d[x] = alldocs[x]
                la = len(alldocs[x])
                if la == 0:
                    continue
                r = rng.random()
                # bias corruption to the head of the document, where every sniffer but DFXP/SAMI/WebVTT looks
                pos = rng.randrange(0, min(la, 40)) if rng.random() < 0.6 else rng.randrange(0, la)
                if r < 0.6:
                    fs.append(["corrupted_char", x, pos, rng.choice(MARKER_ALPHABET)])
                elif r < 0.8:
                    fs.append(["inserted_char", x, pos, rng.choice(MARKER_ALPHABET)])
                else:
                    fs.append(["deleted_char", x, pos])
                if rng.random() < 0.05:
                    lines = alldocs[x].count("\n") + 1
                    i = rng.randrange(lines)
                    j = min(lines, i + rng.randint(1, 4))
                    fs.append([rng.choice(["dropped_block", "duplicated_block"]), x, i, j])
            jobs.append({"docs": d, "faults": fs})
        futs = []
        for k, j in enumerate(jobs):
            j["kind"] = "faults"
            j["hash_seed"] = hseeds[k % len(hseeds)]
            j["other_hash_seed"] = hseeds[(k + 1) % len(hseeds)]
            futs.append(ex.submit(work, j))
        deadline = t0 + budget
        for f in futs:
            if time.time() > deadline and not f.running() and not f.done():
                if f.cancel():
                    stopped_early = True
                    continue
            r = f.result(timeout=900)
            stats["blobs"] += r["n"]
            stats["accepted_blobs"] += r["accepted"]
            stats["multi_accepted_blobs"] += r["multi_accepted"]
            for k, v in r["by_kind"].items():
                by_kind[k] = by_kind.get(k, 0) + v
            for o in r["distinct_outcomes"]:
                outcomes[o] = 1
            digests.append(r["digest"])
            for an in r["anomalies"]:
                an["what"] = "detect"
                anomalies.append(an)
            if len(samples) < 5 and r["job"]["faults"]:
                samples.append({"stored_documents": r["job"]["docnames"][:3], "faults": r["job"]["faults"][:4], "blobs": r["n"]})
    finally:
        ex.shutdown(wait=False, cancel_futures=True)
    # ---- report
    known = load_known()
    lines = []
    new = 0
    seen = {}
    try:
        for an in anomalies:
            kf_pipe = None
            if an["what"] == "pipeline":
                kf_pipe = next((f for f in known if f.get("status") == "open" and f.get("property") == "C20"
                                and pipeline_matches(zp, f, an)), None)
            key = an["tag"] if an["what"] == "detect" else an["tag"].split(":")[0] + an["pipeline"]["writer"] + \
                ("|known:" + kf_pipe["id"] if kf_pipe else "")
            if key in seen:
                continue
            seen[key] = 1
            if len(seen) > 12:
                break
            if an["what"] == "detect" and an.get("order_job"):
                path = write_replay("order", {"order_job": an["order_job"], "tag": an["tag"], "blob": an["blob"]})
                desc = "detect_format(%r): %s" % (an["blob"][:80], an["tag"])
                kf = None
            elif an["what"] == "detect":
                blob = minimise_blob(zp, 0, an["blob"], an["tag"]) if (an["blob_len"] == len(an["blob"]) and not an.get("no_minimise")) else an["blob"]
                path = write_replay("detect", {"blob": blob, "tag": an["tag"], "fault": an["fault"], "hash_seed": 0,
                                               "original_blob_len": an["blob_len"]})
                desc = "detect_format(%r) %s" % (blob[:80], an["tag"])
                kf = next((f for f in known if f.get("status") == "open" and f.get("property") == "C20"
                           and f.get("match", {}).get("tag") == an["tag"] and f.get("match", {}).get("blob") in (None, blob)), None)
            else:
                if kf_pipe is None:
                    an["pipeline"] = minimise_pipeline(zp, an["pipeline"], an["tag"])
                path = write_replay("pipeline", {"pipeline": an["pipeline"], "tag": an["tag"], "hash_seed": 0})
                desc = an["tag"]
                kf = kf_pipe
            if kf:
                lines.append("KNOWN-FINDING: property=C20 %s (replay=%s)" % (kf["what"], path))
            else:
                new += 1
                lines.append("VIOLATION property=C20 replay=%s" % path)
                lines.append("  " + desc)
    finally:
        zp.close()
    wall = time.time() - t0
    total = stats["blobs"] + stats["pipelines"] - stats["pipeline_setup_refused"]
    ev = {
        "property_id": "C20", "tier": tier, "seed": seed, "level": "fault_enumeration",
        "coverage": {
            "evaluations": total,
            "distinct_nontrivial": len(outcomes),
            "rule": "one evaluation = one blob read back from the simulated store (stored document x storage fault) passed to the real "
                    "detect_format and to each of the six sniffers on fresh reader objects in a forked child, or one fault-free "
                    "build->write->detect->read pipeline. Enumerated completely per stored document: every torn-write offset "
                    "(character offsets, plus byte offsets inside UTF-8 sequences), every single dropped or duplicated line, the lost "
                    "write; seeded: stale-tail / misdirected writes over ordered document pairs, corruption / insertion / deletion of "
                    "one character from the marker alphabet, block drops/dups. distinct_nontrivial = number of distinct outcome "
                    "vectors (detect_format result | which of the six sniffers accept/raise) plus distinct (writer, detected, read-back) "
                    "pipeline outcomes observed; a blob no sniffer accepts still counts only once there.",
            "samples": samples,
            "exhaustive": False,
            "exhaustive_part": "torn-write offsets, single-line drops/dups of the %d stored documents used" % len(allnames),
            "stored_documents": {"corpus": len(pick_c), "writer_outputs": len(pick_o)},
            "faults_fired": by_kind, "blobs": stats["blobs"], "accepted_by_some_sniffer": stats["accepted_blobs"],
            "accepted_by_two_or_more_sniffers": stats["multi_accepted_blobs"],
            "pipelines": stats["pipelines"], "pipelines_refused_by_writer": stats["pipeline_setup_refused"],
            "pipelines_not_judged_foreign_marker_or_empty": stats.get("pipelines_not_judged_foreign_marker_or_empty", 0),
            "result_digest": canon.digest("".join(digests)), "runs_per_hour": round(total / max(wall, 1e-6) * 3600),
            "seeds": {"master": seed}, "simulated_time": "none: the SUT reads no clock; logical steps = %d" % total,
            "stopped_early": stopped_early, "workers": workers,
            "real_vs_stub": {"real": ["pycaption.detect_format", "the six Reader.detect sniffers", "all eight writers and six readers (pipelines)"],
                             "stub": ["blob store and its storage-fault model (sim/c20.py)", "client session"]},
        },
        "assumptions": ["the documented order DFXP, MicroDVD, WebVTT, SAMI, SRT, SCC is hard-coded in the harness from the property text",
                        "a sniffer that itself raises counts as 'does not accept' for the reference; detect_format must then still not raise",
                        "strings not reachable from a corpus document or writer output by the listed faults are not covered"],
        "wall_s": round(wall, 2), "violations": new,
    }
    os.makedirs(os.path.dirname(evidence_path), exist_ok=True)
    with open(evidence_path, "w") as f:
        json.dump(ev, f, indent=1, sort_keys=True)
    if a.eventlog:
        with open(a.eventlog, "w") as f:
            json.dump({"digests": digests, "outcomes": sorted(outcomes), "anomalies": [[x["what"], x["tag"]] for x in anomalies]}, f, indent=0)
    print("pipelines=%d (refused %d) blobs=%d faults=%s outcomes=%d anomalies=%d wall=%.1fs" % (
        stats["pipelines"], stats["pipeline_setup_refused"], stats["blobs"], by_kind, len(outcomes), len(anomalies), wall))
    for l in lines:
        print(l)
    return 1 if new else 0
