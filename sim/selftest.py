"""Determinism self-test (DESIGN 2.8): the same VERIF_SEED must give the same event log
 - in two separate orchestrator processes,
 - with 1, 4 and 16 workers,
 - with the orchestrator itself under different PYTHONHASHSEEDs.
Usage: python -c 'from sim import selftest; selftest.main()' [histories] [seeds...]
Exit 0 if all event logs agree, 1 otherwise."""
import json
import os
import subprocess
import sys
import tempfile

from .pool import VERIF, PYTHON


def run(prop, seed, workers, hashseed, histories, out):
    env = dict(os.environ)
    env["VERIF_SEED"] = str(seed)
    env["PYTHONHASHSEED"] = str(hashseed)
    env["PYTHONPATH"] = VERIF
    args = [PYTHON, "-c", "from sim import check; check.main()", "--property", prop, "--tier", "quick",
            "--workers", str(workers), "--eventlog", out, "--evidence", out + ".evidence", "--budget", "3000"]
    if histories:
        args += ["--histories", str(histories)]
    p = subprocess.run(args, env=env, cwd=VERIF, capture_output=True, text=True, timeout=3000)
    return p.returncode, p.stdout[-500:] + p.stderr[-500:]


def main(argv=None):
    argv = argv if argv is not None else sys.argv[1:]
    histories = int(argv[0]) if argv else 120
    seeds = [int(x) for x in argv[1:]] or [1, 20261003]
    configs = [(16, 0), (4, 7), (16, 99)] if os.environ.get("SELFTEST_FAST") else [(16, 0), (4, 7), (1, 123), (16, 99)]
    bad = 0
    d = tempfile.mkdtemp(prefix="pcsim-selftest-")
    for prop in ("C09", "C10", "C20"):
        for seed in seeds:
            logs = []
            for (w, hs) in configs:
                if w == 1 and prop != "C20":
                    h = max(16, histories // 4)   # one worker is slow; a prefix of the same run seeds is compared
                else:
                    h = histories
                out = os.path.join(d, "%s-%d-%d-%d.json" % (prop, seed, w, hs))
                rc, tail = run(prop, seed, w, hs, h if prop != "C20" else 0, out)
                if rc not in (0, 1) or not os.path.exists(out):
                    print("selftest: %s seed=%d workers=%d hashseed=%d rc=%s\n%s" % (prop, seed, w, hs, rc, tail))
                    bad += 1
                    continue
                with open(out) as f:
                    logs.append(((w, hs, h), json.load(f)))
            if not logs:
                continue
            (c0, base) = logs[0]
            for (c, lg) in logs[1:]:
                if prop == "C20":
                    same = lg == base
                else:
                    n = min(len(lg["runs"]), len(base["runs"]))
                    # runs are sorted by run seed; compare those present in both
                    a = {(r["run_seed"], r.get("sweep_ordinal")): r for r in base["runs"]}
                    b = {(r["run_seed"], r.get("sweep_ordinal")): r for r in lg["runs"]}
                    common = sorted(set(a) & set(b))
                    same = bool(common) and all(a[k] == b[k] for k in common)
                    sa = {k[0] for k in a}
                    sb = {k[0] for k in b}
                    va = {json.dumps(v, sort_keys=True) for v in base["violations"] if v[0] in sb}
                    vb = {json.dumps(v, sort_keys=True) for v in lg["violations"] if v[0] in sa}
                    same = same and va == vb
                    n = len(common)
                print("selftest: %s seed=%d %s vs %s: %s (%s compared)" % (
                    prop, seed, c0, c, "identical" if same else "DIFFERENT", n if prop != "C20" else len(base["digests"])))
                if not same:
                    bad += 1
    import shutil
    shutil.rmtree(d, ignore_errors=True)
    print("selftest: %s" % ("OK" if not bad else "%d mismatches" % bad))
    sys.exit(1 if bad else 0)


if __name__ == "__main__":
    main()
