"""Seeded document and caption-set-recipe generators (DESIGN 2.2).  Pure functions of the
rng handed in; no pycaption import (the generator must not depend on the tree under test).
Documents need not be well-formed: the oracle compares pycaption with itself."""

class TapeRng:
    """A random source whose every decision is one float on a tape.  Replaying the tape with a few
    positions redrawn gives a *sibling* document: same structure and mostly the same text, different in
    one or two places (what a memo keyed on too little of the document confuses)."""

    def __init__(self, base, tape=None):
        self.base = base
        self.tape = list(tape) if tape is not None else []
        self.pos = 0

    def random(self):
        if self.pos >= len(self.tape):
            self.tape.append(self.base.random())
        v = self.tape[self.pos]
        self.pos += 1
        return v

    def randrange(self, a, b=None):
        if b is None:
            a, b = 0, a
        return a + min(int(self.random() * (b - a)), b - a - 1)

    def randint(self, a, b):
        return self.randrange(a, b + 1)

    def choice(self, seq):
        return seq[self.randrange(len(seq))]

    def sample(self, seq, k):
        pool = list(seq)
        out = []
        for _ in range(k):
            out.append(pool.pop(self.randrange(len(pool))))
        return out

    def shuffle(self, lst):
        for i in range(len(lst) - 1, 0, -1):
            j = self.randrange(i + 1)
            lst[i], lst[j] = lst[j], lst[i]

    def sibling_tape(self, rng, n=None):
        t = list(self.tape)
        if not t:
            return t
        for _ in range(n or rng.choice([1, 1, 2, 3])):
            # bias to the later part of the tape: early decisions are structural and reshuffle everything after them
            k = rng.randrange(len(t)) if rng.random() < 0.4 else rng.randrange(len(t) // 2, len(t))
            t[k] = rng.random()
        return t


WORDS = ("alpha beta gamma delta lorem ipsum dolor sit amet hello world caption line two "
         "MAN: WOMAN: (laughs) music wait what now then again over under quick brown fox "
         "it's don't 1 2 3 42 100 ... -- yes no ok").split()
TRICKY = ["&", "<", ">", "a&b", "x<y", "-->", "&amp;", "&lt;", "♪", "café", "¿qué?", "{1}", "|",
          "</tt>", "WEBVTT", "<sami>", "1", "00:00:01,000 --> 00:00:02,000"]
LANGS = ["en-US", "fr-cc", "de-DE", "es", "en", "fr", "de", "it", "pt-BR", "ja", "ko", "zh", "ru", "nl",
         "sv", "pl", "tr", "he", "ar", "en-GB"]
# language keys are free-form strings in the model; these are legal but unusual ones
ODD_LANGS = ["pt_BR.utf8", "en us", "1st", "x-klingon!", "EN-us", "zh-Hant-TW", "és"]
SAMI_CLASSES = ["ENCC", "FRCC", "DECC", "ESCC", "ITCC", "PTCC", "JACC", "KOCC", "ZHCC", "RUCC",
                "NLCC", "SVCC", "PLCC", "TRCC", "HECC", "ARCC", "GBCC", "USCC", "XXCC", "YYCC"]


def text(rng, tricky=0.08, maxw=5):
    n = rng.randint(1, maxw)
    out = []
    for _ in range(n):
        out.append(rng.choice(TRICKY) if rng.random() < tricky else rng.choice(WORDS))
    return " ".join(out)


def _times(rng, n, start_ms=None, overlap=0.1, same=0.1):
    """n (start_ms, end_ms) pairs, mostly increasing; sometimes identical consecutive spans
    (exercises merge_concurrent / SRT merging) and overlaps."""
    t = rng.choice([0, 500, 1000, 9209, 60000, 3599000]) if start_ms is None else start_ms
    out = []
    for _ in range(n):
        if out and rng.random() < same:
            out.append(out[-1])
            continue
        dur = rng.choice([40, 500, 1000, 1500, 2000, 3103, 4000])
        s = t
        e = s + dur
        out.append((s, e))
        t = e + (-(dur // 2) if rng.random() < overlap else rng.choice([0, 1, 33, 500, 2000]))
    return out


# ---------------------------------------------------------------------------- SRT
def _srt_ts(ms):
    h, r = divmod(ms, 3600000)
    m, r = divmod(r, 60000)
    s, r = divmod(r, 1000)
    return "%02d:%02d:%02d,%03d" % (h, m, s, r)


def gen_srt(rng, n=None):
    n = n or rng.randint(1, 6)
    out = []
    for i, (s, e) in enumerate(_times(rng, n), 1):
        lines = [text(rng) for _ in range(rng.randint(1, 3))]
        if rng.random() < 0.1:
            lines.insert(1, "")
        out.append("%d\n%s --> %s\n%s\n" % (i, _srt_ts(s), _srt_ts(e), "\n".join(lines)))
    sep = "\n" if rng.random() < 0.9 else "\n\n"
    doc = sep.join(out)
    r = rng.random()
    if r < 0.05:
        doc = doc.replace("\n", "\r\n")
    elif r < 0.08:
        doc = "\n" + doc
    elif r < 0.11:
        doc = doc.replace(" --> ", " -> ", 1)
    elif r < 0.24 and n > 1:
        out.reverse()                   # cues out of order
        doc = sep.join(out)
    elif r < 0.27:
        doc = "\ufeff" + doc
    elif r < 0.36 and n > 1:
        # a malformed timestamp in a later cue: the reader raises after having built earlier captions
        k = doc.rfind(" --> ")
        doc = doc[:k - 6] + rng.choice(["xx", "", ":"]) + doc[k - 4:]
    return doc


# ------------------------------------------------------------------------- WebVTT
def _vtt_ts(ms, short=False):
    h, r = divmod(ms, 3600000)
    m, r = divmod(r, 60000)
    s, r = divmod(r, 1000)
    if short and h == 0:
        return "%02d:%02d.%03d" % (m, s, r)
    return "%02d:%02d:%02d.%03d" % (h, m, s, r)


def gen_webvtt(rng, n=None):
    n = n or rng.randint(1, 6)
    out = ["WEBVTT" + (" - title" if rng.random() < 0.2 else ""), ""]
    if rng.random() < 0.2:
        out += ["NOTE a comment", ""]
    times = _times(rng, n, overlap=0.15)
    if rng.random() < 0.1 and len(times) > 1:
        times[0], times[-1] = times[-1], times[0]  # out of order: raises with ignore_timing_errors=False
    for i, (s, e) in enumerate(times):
        if rng.random() < 0.05:
            s, e = e, s
        if rng.random() < 0.3:
            out.append("cue-%d" % i)
        settings = ""
        if rng.random() < 0.4:
            settings = " " + " ".join(rng.sample(
                ["align:left", "align:middle", "position:10%", "line:20%", "size:35%", "line:0", "vertical:rl"],
                rng.randint(1, 3)))
        short = rng.random() < 0.3
        if i > 0 and rng.random() < 0.04:
            out.append("%s --> %s" % (rng.choice(["00:0x.000", "1:2", "--", "00:00:01"]), _vtt_ts(e, short)))
        else:
            out.append("%s --> %s%s" % (_vtt_ts(s, short), _vtt_ts(e, short), settings))
        for _ in range(rng.randint(1, 3)):
            t = text(rng)
            r = rng.random()
            if r < 0.15:
                t = "<i>%s</i>" % t
            elif r < 0.25:
                t = "<v Bob>%s" % t
            elif r < 0.3:
                t = "<c.yellow>%s</c> &nbsp;x" % t
            out.append(t)
        out.append("")
    return "\n".join(out)


# ----------------------------------------------------------------------- MicroDVD
def gen_microdvd(rng, n=None):
    n = n or rng.randint(1, 6)
    out = []
    r = rng.random()
    if r < 0.3:
        out.append("{0}{0}%s" % rng.choice(["25.0", "23.976", "30", "29.97"]))
    elif r < 0.35:
        out.append("{0}{0}nofps")
    for (s, e) in _times(rng, n):
        lines = "|".join(text(rng, tricky=0.04) for _ in range(rng.randint(1, 3)))
        out.append("{%d}{%d}%s" % (s // 40, e // 40, lines))
    if rng.random() < 0.05:
        out.insert(rng.randint(0, len(out)), "not a microdvd line")
    if rng.random() < 0.1:
        out.insert(rng.randint(0, len(out)), "")
    return "\n".join(out) + ("\n" if rng.random() < 0.8 else "")


# --------------------------------------------------------------------------- SAMI
def gen_sami(rng, n=None, nlangs=None):
    n = n or rng.randint(1, 5)
    nlangs = nlangs or rng.choice([1, 1, 2, 2, 3, 3, 4])
    classes = rng.sample(SAMI_CLASSES, nlangs)
    codes = rng.sample(LANGS, nlangs)
    attr_based = rng.random() < 0.15  # <P lang="xx"> instead of class based
    css = []
    if rng.random() < 0.7:
        props = ["margin-left: %s;" % rng.choice(["1pt", "5%", "10px", "2em"]),
                 "margin-top: %s;" % rng.choice(["2pt", "3%", "0"]),
                 "text-align: %s;" % rng.choice(["center", "left", "right"]),
                 "font-size: 10pt;", "font-family: Arial;", "color: %s;" % rng.choice(["#ffeedd", "white", "#abc"])]
        css.append("P { " + " ".join(rng.sample(props, rng.randint(1, len(props)))) + " }")
    for k, c in zip(classes, codes):
        extra = ""
        if rng.random() < 0.3:
            extra = " margin-top: %s; text-align: %s;" % (rng.choice(["3%", "10px"]), rng.choice(["left", "right"]))
        css.append(".%s {Name: L%s; lang: %s; SAMI_Type: CC;%s}" % (k, k, c, extra))
    if rng.random() < 0.25:
        # several classes declaring the same language with different positioning: which one wins must not
        # depend on anything but the document
        for _ in range(rng.randint(1, 3)):
            j = rng.randrange(nlangs)
            css.append(".%sX%d {Name: alt; lang: %s; margin-top: %s; margin-left: %s; text-align: %s;}" % (
                classes[j], rng.randrange(100), codes[j], rng.choice(["20pt", "7%", "3em"]), rng.choice(["11px", "2%"]),
                rng.choice(["left", "right", "center"])))
    if rng.random() < 0.3:
        css.append("#Small {font-size: 8pt; color: yellow;}")
    if rng.random() < 0.2:
        css.append(".styled {font-style: italic; font-weight: bold; text-decoration: underline;}")
    rng.shuffle(css)
    head = "<SAMI><HEAD><TITLE>t</TITLE><STYLE TYPE=\"text/css\">\n<!--\n%s\n-->\n</STYLE></HEAD><BODY>\n" % "\n".join(css)
    body = []
    for (s, e) in _times(rng, n, same=0.0):
        ps = []
        order = list(range(nlangs))
        if rng.random() < 0.5:
            rng.shuffle(order)
        for j in order:
            if rng.random() < 0.15 and nlangs > 1:
                continue
            t = text(rng, tricky=0.03).replace("<", "&lt;").replace(">", "&gt;")
            r = rng.random()
            if r < 0.15:
                t = "<i>%s</i> %s" % (t, rng.choice(WORDS))
            elif r < 0.3:
                t = "<SPAN Style=\"%s\">%s</SPAN>" % (
                    rng.choice(["text-align:right;", "font-style:italic;", "color:red;font-weight:bold"]), t)
            elif r < 0.38:
                t = "<span class=\"styled\">%s</span>" % t
            elif r < 0.46:
                t = t + "<br/>" + rng.choice(WORDS)
            elif r < 0.5:
                t = "<b>%s <u>x</u></b>" % t
            if attr_based:
                ps.append("<P lang=\"%s\">%s</P>" % (codes[j][:2], t))
            else:
                pid = " id=\"Small\"" if rng.random() < 0.05 else ""
                ps.append("<P class=\"%s\"%s>%s</P>" % (classes[j], pid, t))
        body.append("<SYNC start=\"%d\">%s</SYNC>" % (s, "".join(ps)))
        if rng.random() < 0.5:
            body.append("<SYNC start=\"%d\">%s</SYNC>" % (
                e, "".join("<P class=\"%s\">&nbsp;</P>" % classes[j] for j in range(nlangs))))
    if len(body) > 1 and rng.random() < 0.08:
        k = rng.randrange(1, len(body))
        body[k] = body[k].replace(" start=\"", " begin=\"", 1)     # later SYNC without start: raises after earlier captions
    r = rng.random()
    if r < 0.82:
        tail = "\n</BODY></SAMI>\n"
    elif r < 0.9:
        tail = "\n"
    else:
        # torn inside a tag / an entity: the HTML parser is left holding unconsumed input
        tail = "\n" + rng.choice(['<SYNC start="99000"><P class="%s"' % classes[0], "<SYNC start=", "<P", "<!-- unterminated", "&am", "<i"])
    if len(body) > 1 and rng.random() < 0.05:
        k = rng.randrange(1, len(body))
        body[k] = body[k].replace("</P>", rng.choice(["&#1114112;", "&#xFFFFFFFF;", "&#0;"]) + "</P>", 1)   # character reference out of range
    doc = head + "\n".join(body) + tail
    if rng.random() < 0.08 and "color:" in doc:
        # an invalid colour in a randomly chosen rule (often not the first: the parser has stored earlier rules by then)
        idx = [i for i in range(len(doc)) if doc.startswith("color:", i)]
        i = rng.choice(idx)
        doc = doc[:i] + "color: " + rng.choice(["#zz", "ffffff", "rgb(1,2)"]) + ";" + doc[i + 6:]
    return doc


# --------------------------------------------------------------------------- DFXP
def _dfxp_ts(ms, rng):
    r = rng.random()
    h, rem = divmod(ms, 3600000)
    m, rem = divmod(rem, 60000)
    s, rem = divmod(rem, 1000)
    if r < 0.75:
        return "%02d:%02d:%02d.%03d" % (h, m, s, rem)
    if r < 0.85:
        return "%02d:%02d:%02d:%02d" % (h, m, s, rem * 30 // 1000)
    if r < 0.90:
        return "%.3fs" % (ms / 1000.0)
    if r < 0.95:
        return "%df" % (ms * 30 // 1000)
    return "%dms" % ms


def _len2(rng, units):
    u = rng.choice(units)
    f = {"%": lambda: rng.choice([0, 5, 10, 12.5, 25, 40, 50, 80, 90]), "px": lambda: rng.choice([0, 16, 40, 100, 320]),
         "em": lambda: rng.choice([1, 2, 3.5]), "c": lambda: rng.choice([1, 4, 10]), "pt": lambda: rng.choice([6, 12, 36])}[u]
    v = f()
    return ("%g" % v) + u


def gen_dfxp(rng, n=None, nlangs=None, abs_units=None, referential=False):
    """referential=True: region r0 surely takes its origin and extent from style s0 of <styling> and <body> uses r0."""
    n = n or rng.randint(1, 5)
    nlangs = nlangs or rng.choice([1, 1, 1, 2, 2, 3, 4])
    if abs_units is None:
        abs_units = rng.random() < 0.25
    units = ["%"] if not abs_units else ["%", "px", "px", "em", "c", "pt"]
    langs = rng.sample(LANGS, nlangs)
    if nlangs > 1 and rng.random() < 0.12:
        langs[-1] = langs[0]          # two <div>s with the same language
    styles = []
    nstyles = rng.randint(1, 3) if referential else rng.randint(0, 3)
    for i in range(nstyles):
        attrs = rng.sample(['tts:color="white"', 'tts:fontFamily="monospace"', 'tts:fontSize="1c"',
                            'tts:fontStyle="italic"', 'tts:textAlign="%s"' % rng.choice(["center", "left", "right", "start", "end"]),
                            'tts:fontWeight="bold"', 'tts:textDecoration="underline"'], rng.randint(1, 4))
        ref = ' style="s%d"' % (i - 1) if i > 0 and rng.random() < 0.3 else ""
        if referential and i == 0:
            attrs += ['tts:origin="%s %s"' % (_len2(rng, units), _len2(rng, units)), 'tts:extent="%s %s"' % (_len2(rng, units), _len2(rng, units))]
        elif rng.random() < 0.3:
            # referential geometry: a region (or an element) may take origin / extent / padding / displayAlign from a
            # style of <styling>, so two documents can carry the very same <region> markup and still differ
            attrs += rng.sample(['tts:origin="%s %s"' % (_len2(rng, units), _len2(rng, units)),
                                 'tts:extent="%s %s"' % (_len2(rng, units), _len2(rng, units)),
                                 'tts:padding="%s"' % " ".join(_len2(rng, units) for _ in range(rng.choice([1, 2, 3, 4]))),
                                 'tts:displayAlign="%s"' % rng.choice(["before", "center", "after"])], rng.randint(1, 2))
        close = rng.choice(["/>", "/>", "/>", "/>", "/>", "/>", "></style>", "></style>", ">", "> </style>"])
        styles.append('<style xml:id="s%d"%s %s%s' % (i, ref, " ".join(attrs), close))
    if rng.random() < 0.15:
        styles.append('<style xml:id="p" tts:color="yellow"/>')
    regions = []
    nregions = rng.randint(1, 3) if referential else rng.randint(0, 3)
    for i in range(nregions):
        attrs = []
        if rng.random() < 0.8:
            attrs.append('tts:origin="%s %s"' % (_len2(rng, units), _len2(rng, units)))
        if rng.random() < 0.6:
            attrs.append('tts:extent="%s %s"' % (_len2(rng, units), _len2(rng, units)))
        if rng.random() < 0.3:
            attrs.append('tts:padding="%s"' % " ".join(_len2(rng, units) for _ in range(rng.choice([1, 2, 3, 4]))))
        if rng.random() < 0.5:
            attrs.append('tts:textAlign="%s"' % rng.choice(["center", "left", "right", "start", "end"]))
        if rng.random() < 0.5:
            attrs.append('tts:displayAlign="%s"' % rng.choice(["before", "center", "after"]))
        inner = ""
        if rng.random() < 0.2:
            inner = '<style tts:extent="%s %s"/>' % (_len2(rng, units), _len2(rng, units))
        if referential and i == 0:
            attrs = [a for a in attrs if not a.startswith(("tts:origin", "tts:extent"))] + ['style="s0"']
        elif nstyles and rng.random() < 0.35:
            if rng.random() < 0.4:
                attrs = [a for a in attrs if not a.startswith(("tts:origin", "tts:extent"))]   # left to the referenced style
            attrs.append('style="s%d"' % rng.randrange(nstyles))
        regions.append('<region xml:id="r%d" %s>%s</region>' % (i, " ".join(attrs), inner))
    tt_attrs = ' xml:lang="%s"' % rng.choice(["en", "en-US", ""]) if rng.random() < 0.7 else ""
    if rng.random() < 0.2:
        tt_attrs += ' tts:extent="%s"' % rng.choice(["640px 360px", "1280px 720px", "320px 240px", "50% 50%"])
    if rng.random() < 0.2:
        # TTML parameter attributes (today ignored by the reader; whatever a reader does with them must stay
        # inside the document that carries them)
        tt_attrs += " " + " ".join(rng.sample(['ttp:frameRate="%s"' % rng.choice(["24", "25", "60"]), 'ttp:frameRateMultiplier="1000 1001"',
                                               'ttp:tickRate="%s"' % rng.choice(["10000000", "90000"]), 'ttp:timeBase="media"',
                                               'ttp:cellResolution="%s"' % rng.choice(["32 15", "40 24"]), 'xml:space="preserve"',
                                               'ttp:dropMode="nonDrop"'], rng.randint(1, 3)))
    out = ['<?xml version="1.0" encoding="utf-8"?>' if rng.random() < 0.7 else "",
           '<tt%s xmlns="http://www.w3.org/ns/ttml" xmlns:tts="http://www.w3.org/ns/ttml#styling" xmlns:ttp="http://www.w3.org/ns/ttml#parameter">' % tt_attrs,
           "<head><styling>%s</styling><layout>%s</layout></head>" % ("".join(styles), "".join(regions)),
           "<body%s>" % (' region="r0"' if nregions and (referential or rng.random() < 0.1) else "")]
    for lang in langs:
        div_attr = ' xml:lang="%s"' % lang if (nlangs > 1 or rng.random() < 0.7) else ""
        if nregions and rng.random() < 0.2:
            div_attr += ' region="r%d"' % rng.randrange(nregions)
        out.append("<div%s>" % div_attr)
        for (s, e) in _times(rng, n):
            a = ['begin="%s"' % _dfxp_ts(s, rng)]
            a.append(('end="%s"' % _dfxp_ts(e, rng)) if rng.random() < 0.85 else ('dur="%s"' % _dfxp_ts(e - s, rng)))
            if nregions and rng.random() < 0.6:
                a.append('region="r%d"' % rng.randrange(nregions))
            if nstyles and rng.random() < 0.5:
                a.append('style="s%d"' % rng.randrange(nstyles))
            if rng.random() < 0.15:
                a.append('tts:textAlign="%s"' % rng.choice(["center", "right"]))
            if rng.random() < 0.08:
                a.append('tts:origin="%s %s"' % (_len2(rng, units), _len2(rng, units)))
            parts = []
            for k in range(rng.randint(1, 3)):
                t = text(rng, tricky=0.03).replace("&", "&amp;").replace("<", "&lt;")
                r = rng.random()
                if r < 0.2:
                    sp = rng.choice(['tts:fontStyle="italic"', 'tts:fontWeight="bold"', 'tts:color="red"',
                                     'tts:textDecoration="underline"'])
                    if nregions and rng.random() < 0.3:
                        sp += ' region="r%d"' % rng.randrange(nregions)
                    t = "<span %s>%s</span>" % (sp, t)
                elif r < 0.25 and nstyles:
                    t = '<span style="s0">%s</span>' % t
                parts.append(t)
            if rng.random() < 0.03:
                a[0] = rng.choice(['begin="soon"', 'start="1s"', 'begin="1t"'])   # raises after earlier paragraphs were converted
            out.append("<p %s>%s</p>" % (" ".join(a), "<br/>".join(parts)))
        out.append("</div>")
    out.append("</body></tt>")
    return "\n".join(x for x in out if x != "")


# ---------------------------------------------------------------------------- SCC
def _parity(b):
    return b | 0x80 if bin(b).count("1") % 2 == 0 else b


def scc_chars(s):
    """Basic-character-set text -> list of 4-hex-digit words (odd parity, padded with 80)."""
    bs = ["%02x" % _parity(ord(c)) for c in s]
    if len(bs) % 2:
        bs.append("80")
    return [bs[i] + bs[i + 1] for i in range(0, len(bs), 2)]


SCC_PACS = ["9470", "94d0", "9454", "9452", "91d0", "9170", "1370", "13d0", "9270", "92d0", "1570", "15d0", "9770", "97d0",
            "9440", "94e0", "9140", "91e0", "946e", "94ce", "9152", "91f2"]
SCC_TABS = ["97a1", "97a2", "9723"]
SCC_MIDROW = ["91ae", "9120", "91a1", "912f"]
SCC_SPECIAL = ["9137", "91b0", "91b6", "91b9"]
SCC_EXTENDED = ["9220", "92a1", "1320", "13a1", "92ae"]
SCC_TEXT = ("HELLO WORLD", "Hi there", "ok", "a b c", "It is fine.", "yes, no", "wait! what?", "rolling text here",
            "one two three four five six", "x", "line", "ABCDEFGHIJKLMNOPQRSTUVWXYZ012345678", "end")


def _scc_tc(frames, sep):
    f = frames % 30
    s = frames // 30
    return "%02d:%02d:%02d%s%02d" % (s // 3600, s // 60 % 60, s % 60, sep, f)


def gen_scc(rng, nblocks=None, begin_with=None, end_state=None):
    """SCC programs in the three modes, ending in different decoder states.  begin_with: first
    control word of the document (the word a previous document ended with)."""
    nblocks = nblocks or rng.randint(1, 5)
    sep = rng.choice([":", ":", ";"])
    doubled = rng.random() < 0.8

    def D(w):
        return [w, w] if doubled else [w]

    lines = []
    frame = rng.choice([0, 30, 301, 1800, 108000])
    end_state = end_state or rng.choice(["closed", "closed", "open_pop", "open_roll", "open_paint", "single_ctrl",
                                         "pending_eoc", "dangling_pac"])
    headless = rng.random() < 0.3   # first block without its mode-setting prefix: decoder defaults are visible
    for b in range(nblocks):
        mode = rng.choice(["pop", "pop", "roll", "paint"])
        w = []
        if b == 0 and headless:
            # text, carriage returns, extended characters, backspaces before any cue-starting command
            mode = "headless"
            for r in range(rng.randint(1, 3)):
                if rng.random() < 0.7:
                    w += D(rng.choice(SCC_PACS))
                w += scc_chars(rng.choice(SCC_TEXT))
                k = rng.random()
                if k < 0.35:
                    w += D("94ad")
                elif k < 0.55:
                    w += scc_chars("e") + D(rng.choice(SCC_EXTENDED))
                elif k < 0.65:
                    w += D("94a1")
                elif k < 0.8:
                    w += D("942f")
        elif mode == "pop":
            w += D("94ae") + D("9420")
            for r in range(rng.randint(1, 3)):
                w += D(rng.choice(SCC_PACS))
                if rng.random() < 0.2:
                    w += D(rng.choice(SCC_TABS))
                if rng.random() < 0.2:
                    w += D(rng.choice(SCC_MIDROW))
                w += scc_chars(rng.choice(SCC_TEXT))
                if rng.random() < 0.1:
                    w += D(rng.choice(SCC_SPECIAL))
                if rng.random() < 0.1:
                    w += scc_chars("e") + D(rng.choice(SCC_EXTENDED))
                if rng.random() < 0.05:
                    w += D("94a1")
            last = b == nblocks - 1
            if not (last and end_state == "open_pop"):
                w += D("942c") + (D("942f") if not (last and end_state == "pending_eoc") else ["942f"])
        elif mode == "roll":
            w += D(rng.choice(["9425", "9426", "94a7"])) + D("94ad") + D(rng.choice(SCC_PACS))
            w += scc_chars(rng.choice(SCC_TEXT))
            for r in range(rng.randint(0, 2)):
                w += D("94ad") + D(rng.choice(SCC_PACS)) + scc_chars(rng.choice(SCC_TEXT))
            if not (b == nblocks - 1 and end_state == "open_roll") and rng.random() < 0.5:
                w += D("94ad")
        else:
            w += D("9429") + D(rng.choice(SCC_PACS)) + scc_chars(rng.choice(SCC_TEXT))
            if rng.random() < 0.4:
                w += D(rng.choice(SCC_PACS)) + scc_chars(rng.choice(SCC_TEXT))
            if rng.random() < 0.2:
                w += D("94a4")
        if b == 0 and begin_with:
            w = [begin_with] + w
        if b == nblocks - 1:
            if end_state == "single_ctrl":
                w.append(rng.choice(["942c", "9420", "94ae", "9425", "94ad", "942f"]))
            elif end_state == "dangling_pac":
                w.append(rng.choice(SCC_PACS))
        lines.append("%s\t%s" % (_scc_tc(frame, sep), " ".join(w)))
        frame += len(w) + rng.choice([1, 10, 45, 90, 300])
        if mode == "pop" and rng.random() < 0.6:
            lines.append("%s\t%s" % (_scc_tc(frame, sep), " ".join(D("942c"))))
            frame += rng.choice([5, 30, 60])
    if len(lines) > 1 and rng.random() < 0.12:
        k = rng.randrange(1, len(lines))
        tc, rest = lines[k].split("\t", 1)
        lines[k] = rng.choice([tc[:6], tc.replace(":", "", 1), "xx" + tc[2:]]) + "\t" + rest
    header = "Scenarist_SCC V1.0"
    doc = header + "\n\n" + "\n\n".join(lines) + "\n"
    if rng.random() < 0.04:
        doc = doc.replace("\t", " ", 1)
    return doc


def last_control_word(doc):
    ws = doc.split()
    return ws[-1] if ws and len(ws[-1]) == 4 else None


_ATTR_RE = None
_VOCAB = [["left", "center", "right", "start", "end"], ["before", "after", "center"], ["italic", "normal"], ["bold", "normal"],
          ["white", "red", "yellow", "#ffeedd", "#abc"], ["monospace", "Arial"], ["px", "%", "em", "c", "pt"]]


def attr_sibling(rng, text):
    """Sibling of an XML-ish document at the attribute level: one attribute (preferably in the head of the
    document, where other elements depend on it) is dropped, changed, or - for the root - an extent is added."""
    import re
    global _ATTR_RE
    if _ATTR_RE is None:
        _ATTR_RE = re.compile(r'\s([\w:\-]+)="([^"]*)"')
    ms = [m for m in _ATTR_RE.finditer(text) if not m.group(1).startswith("xmlns")]
    if not ms:
        return text
    r = rng.random()
    if r < 0.15 and "<tt" in text:
        k = text.find("<tt") + 3
        if "tts:extent" not in text[k:text.find(">", k)]:
            return text[:k] + ' tts:extent="%s"' % rng.choice(["640px 480px", "1280px 720px", "320px 200px"]) + text[k:]
    head_end = max(text.find("<body"), text.find("<BODY"), len(text) // 3)
    weights = [(4 if m.start() < head_end else 1) for m in ms]
    tot = sum(weights)
    x = rng.random() * tot
    acc = 0
    m = ms[-1]
    for mm, w in zip(ms, weights):
        acc += w
        if x < acc:
            m = mm
            break
    name, val = m.group(1), m.group(2)
    if rng.random() < 0.35:
        return text[:m.start()] + text[m.end():]
    new = None
    for voc in _VOCAB:
        if val in voc:
            new = rng.choice([v for v in voc if v != val])
            break
    if new is None:
        digits = [i for i, ch in enumerate(val) if ch.isdigit()]
        if digits:
            i = rng.choice(digits)
            new = val[:i] + rng.choice([d for d in "0123456789" if d != val[i]]) + val[i + 1:]
        else:
            new = val + "x"
    return text[:m.start()] + ' %s="%s"' % (name, new) + text[m.end():]


GEN = {"srt": gen_srt, "webvtt": gen_webvtt, "microdvd": gen_microdvd, "sami": gen_sami, "dfxp": gen_dfxp, "scc": gen_scc}
READER_OF = {"srt": "SRTReader", "webvtt": "WebVTTReader", "microdvd": "MicroDVDReader", "sami": "SAMIReader",
             "dfxp": "DFXPReader", "scc": "SCCReader"}


# ----------------------------------------------------------- API-built set recipes
def gen_size(rng, units):
    u = rng.choice(units)
    v = {"%": [0, 5, 10, 25, 50, 80, 95, 12.5], "px": [0, 16, 100, 320, 640], "em": [1, 2.5], "c": [1, 8], "pt": [12, 36]}[u]
    return [rng.choice(v), u]


def gen_layout(rng, abs_units=False, webvtt=False):
    units = ["%"] if not abs_units else ["%", "px", "px", "em", "c", "pt"]
    spec = {}
    if rng.random() < 0.7:
        spec["origin"] = [gen_size(rng, units), gen_size(rng, units)]
    if rng.random() < 0.5:
        spec["extent"] = [gen_size(rng, units), gen_size(rng, units)]
    if rng.random() < 0.3:
        spec["padding"] = [gen_size(rng, units) if rng.random() < 0.8 else None for _ in range(4)]
    if rng.random() < 0.6:
        spec["alignment"] = [rng.choice(["left", "center", "right", "start", "end", None]),
                             rng.choice(["top", "center", "bottom", None])]
    if webvtt and rng.random() < 0.3:
        spec["webvtt"] = rng.choice(["align:left", "position:10% line:5%", "size:40%"])
    if not spec:
        spec["alignment"] = ["center", "bottom"]
    return spec


STYLE_KEYS = [("italics", True), ("bold", True), ("underline", True), ("color", "red"), ("font-family", "Arial"),
              ("font-size", "10pt"), ("text-align", "right"), ("class", "c1"), ("classes", ["c1", "c2"]),
              ("display-align", "after"), ("lang", "en-US"), ("italics", False)]


def gen_style(rng, k=None):
    return {a: b for a, b in rng.sample(STYLE_KEYS, k or rng.randint(1, 3))}


def gen_nodes(rng, layouts, unbalanced=0.0, scc_safe=False):
    nodes = []
    lay = lambda: (rng.choice(layouts) if layouts and rng.random() < 0.5 else None)
    n = rng.randint(1, 4)
    open_style = None
    for i in range(n):
        if rng.random() < 0.3 and open_style is None:
            open_style = gen_style(rng)
            nodes.append({"t": "style", "start": True, "c": open_style, "layout": lay()})
        t = rng.choice(SCC_TEXT[:11]) if scc_safe else text(rng)
        nodes.append({"t": "text", "c": t, "layout": lay()})
        if open_style is not None and rng.random() < 0.6:
            nodes.append({"t": "style", "start": False, "c": open_style, "layout": lay()})
            open_style = None
        if i < n - 1 and rng.random() < 0.6:
            nodes.append({"t": "break", "layout": lay()})
    if open_style is not None and rng.random() >= unbalanced:
        nodes.append({"t": "style", "start": False, "c": open_style, "layout": lay()})
    if rng.random() < unbalanced / 2:
        nodes.append({"t": "style", "start": True, "c": gen_style(rng), "layout": None})
    return nodes


def gen_caption(rng, s, e, layouts, unbalanced, style_mode, scc_safe=False):
    c = {"start": s * 1000, "end": e * 1000, "nodes": gen_nodes(rng, layouts, unbalanced, scc_safe)}
    r = rng.random()
    if style_mode == "default" or r < 0.4:
        c["style"] = "default"
    elif r < 0.55:
        c["style"] = "shared:0"
        c["shared_value"] = {"italics": True}
    else:
        c["style"] = gen_style(rng)
    if layouts and rng.random() < 0.5:
        c["layout"] = rng.choice(layouts)
    if rng.random() < 0.05:
        c["start"] = c["start"] + 0.5  # fractional microseconds
    return c


def gen_recipe(rng, abs_units=None, unbalanced=None, nlangs=None, scc_safe=False):
    if abs_units is None:
        abs_units = rng.random() < 0.25
    if unbalanced is None:
        unbalanced = rng.choice([0.0, 0.0, 0.5, 1.0])
    nlangs = nlangs or rng.choice([1, 1, 2, 3])
    layouts = [gen_layout(rng, abs_units, webvtt=True) for _ in range(rng.randint(0, 3))]
    if layouts and rng.random() < 0.25:
        # relative first, absolute later: a writer without video size raises only after part of its work is done
        layouts = [gen_layout(rng, False)] + layouts[:-1] + [gen_layout(rng, True)]
    style_mode = rng.choice(["default", "mixed", "mixed"])
    langs = []
    pool = LANGS if rng.random() < 0.8 else LANGS[:4] + ODD_LANGS
    for lang in rng.sample(pool, nlangs):
        caps = [gen_caption(rng, s, e, layouts, unbalanced, style_mode, scc_safe)
                for (s, e) in _times(rng, rng.randint(1, 4), same=0.2)]
        langs.append({"lang": lang, "captions": caps,
                      "layout": rng.choice(layouts) if layouts and rng.random() < 0.4 else None})
    if rng.random() < 0.2:
        # shapes a "normalising" pre-pass would touch: captions out of order, a negative start, whitespace-only or
        # padded text, an empty text node
        l = rng.choice(langs)
        k = rng.random()
        if k < 0.3 and len(l["captions"]) > 1:
            rng.shuffle(l["captions"])
        elif k < 0.5:
            c = rng.choice(l["captions"])
            c["start"], c["end"] = -1500000, c["end"] - c["start"] - 1500000
        elif k < 0.8:
            c = rng.choice(l["captions"])
            for n in c["nodes"]:
                if n["t"] == "text" and rng.random() < 0.6:
                    n["c"] = rng.choice(["  " + n["c"] + " ", "   ", "", "\t" + n["c"], n["c"] + "\n"])
        else:
            c = rng.choice(l["captions"])
            c["end"] = c["start"]          # zero-length caption
    if rng.random() < 0.06:
        # a caption of 40 short lines at the end of the first language: too many rows for the SCC writer,
        # which raises only after it has encoded the earlier captions
        last = langs[0]["captions"][-1]
        nodes = []
        for k in range(40):
            nodes.append({"t": "text", "c": "row %d" % k, "layout": None})
            nodes.append({"t": "break", "layout": None})
        huge = {"start": last["end"] + 1000000, "end": last["end"] + 3000000, "nodes": nodes[:-1], "style": "default"}
        langs[0]["captions"].append(huge)
    rec = {"langs": langs}
    r = rng.random()
    if r < 0.4:
        rec["styles"] = "default"
    else:
        rec["styles"] = {k: gen_style(rng) for k in rng.sample(["c1", "c2", "p", "encc", "x y"], rng.randint(0, 3))}
        if rng.random() < 0.3:
            rec["styles"]["encc"] = {"lang": langs[0]["lang"]}
    if layouts and rng.random() < 0.4:
        rec["layout"] = rng.choice(layouts)
    return rec


def head_siblings(text, limit=60):
    """Every attribute-level sibling of an XML-ish document whose change lies in the head (before <body>): each head
    attribute once dropped and once changed, plus - for DFXP - a root extent added / changed.  Deterministic."""
    import re
    global _ATTR_RE
    if _ATTR_RE is None:
        _ATTR_RE = re.compile(r'\s([\w:\-]+)="([^"]*)"')
    low = text.lower()
    head_end = low.find("<body")
    if head_end < 0:
        head_end = len(text) // 2
    out = []
    if "<tt" in text:
        k = text.find("<tt") + 3
        close = text.find(">", k)
        if "tts:extent" not in text[k:close]:
            out.append(text[:k] + ' tts:extent="640px 480px"' + text[k:])
    for m in _ATTR_RE.finditer(text):
        if m.start() >= head_end or m.group(1).startswith("xmlns"):
            continue
        name, val = m.group(1), m.group(2)
        out.append(text[:m.start()] + text[m.end():])
        new = None
        for voc in _VOCAB:
            if val in voc:
                new = voc[(voc.index(val) + 1) % len(voc)]
                break
        if new is None:
            digits = [i for i, ch in enumerate(val) if ch.isdigit()]
            if digits:
                i = digits[0]
                new = val[:i] + ("7" if val[i] != "7" else "3") + val[i + 1:]
            else:
                new = val + "x"
        out.append(text[:m.start()] + ' %s="%s"' % (name, new) + text[m.end():])
    # SAMI: CSS declarations in the head: dropped; colours also replaced by values the CSS library rejects in
    # different ways (adjacent in the list: the sweep also reads consecutive siblings one after the other)
    for m in re.finditer(r'([\w\-]+)\s*:\s*([^;{}]+);', text[:head_end]):
        out.append(text[:m.start()] + text[m.end():])
        if m.group(1).lower() == "color":
            for bad in ("rgb(1,2)", "ffffff", "#zz", "rgb(300%, a, 0)"):
                out.append(text[:m.start()] + "color: %s;" % bad + text[m.end():])
    return out[:limit]
