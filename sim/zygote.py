"""Zygote: one interpreter per PYTHONHASHSEED that imports pycaption and the harness,
executes NO pycaption operation itself, and pre-forks one child per job.  A forked child is
therefore a pristine interpreter with that hash seed (DESIGN section 2).

Pre-fork, not accept-then-fork: the zygote's own loop does nothing but fork() and read one
byte from a pipe, so its heap is in the same state at every fork.  (An earlier version accepted
connections in the zygote itself; socket objects and timeout exceptions slowly changed its
free lists, and a child forked late re-used memory addresses differently from a child forked
early - visible to code under test that keys anything on id().)  The child blocks in accept(),
handles exactly one job and exits.

Started as:  PYTHONHASHSEED=<h> PYTHONPATH=<repo>:/verif python -c 'from sim import zygote; zygote.main()' <socket path>
(not with -m, to avoid a double import of this module).
"""
import faulthandler
import json
import os
import signal
import socket
import struct
import sys
import traceback


def send_msg(sock, obj):
    data = json.dumps(obj, ensure_ascii=True).encode("ascii")
    sock.sendall(struct.pack("!I", len(data)) + data)


def _recv_exact(sock, n):
    buf = bytearray()
    while len(buf) < n:
        chunk = sock.recv(min(1 << 20, n - len(buf)))
        if not chunk:
            raise EOFError("peer closed after %d of %d bytes" % (len(buf), n))
        buf += chunk
    return bytes(buf)


def recv_msg(sock):
    (n,) = struct.unpack("!I", _recv_exact(sock, 4))
    return json.loads(_recv_exact(sock, n).decode("ascii"))


def _die_with_parent():
    """Linux: deliver SIGKILL to this process when its parent dies (no polling, no timeouts)."""
    try:
        import ctypes
        libc = ctypes.CDLL(None, use_errno=True)
        libc.prctl(1, signal.SIGKILL, 0, 0, 0)   # PR_SET_PDEATHSIG
    except Exception:
        pass


def _child(srv, wfd, ppid):
    from . import ops
    _die_with_parent()
    if os.getppid() != ppid:
        os._exit(0)
    try:
        conn, _ = srv.accept()          # blocking: no timeout objects, identical work before every job
    except BaseException:
        os._exit(0)
    try:
        os.write(wfd, b"1")             # tell the zygote to pre-fork the next acceptor
        os.close(wfd)
        srv.close()
        # nothing a child prints (bs4 / cssutils warnings) may block on a pipe nobody drains
        devnull = os.open(os.devnull, os.O_WRONLY)
        os.dup2(devnull, 1)
        job = recv_msg(conn)
        faulthandler.dump_traceback_later(float(job.get("timeout", 60)), exit=True)
        try:
            res = ops.run_job(job)
            res["ok"] = True
        except BaseException as e:
            res = {"ok": False, "error": "%s: %s" % (type(e).__name__, e), "trace": traceback.format_exc()[-2000:]}
        send_msg(conn, res)
    finally:
        try:
            conn.close()
        finally:
            os._exit(0)


def main():
    path = sys.argv[1]
    # import everything a child needs *before* forking, execute nothing
    import pycaption  # noqa: F401
    import pycaption.dfxp  # noqa: F401
    import ctypes  # noqa: F401
    from . import ops, canon, c20  # noqa: F401
    ops.corpus()
    ops.cleanup_lines()      # parsed once here, inherited by every child
    _die_with_parent()
    signal.signal(signal.SIGCHLD, signal.SIG_IGN)  # auto-reap children
    srv = socket.socket(socket.AF_UNIX, socket.SOCK_STREAM)
    srv.bind(path)
    srv.listen(256)
    sys.stdout.write("READY %s\n" % os.path.abspath(pycaption.__file__))
    sys.stdout.flush()
    me = os.getpid()
    failures = 0
    while failures < 50:
        rfd, wfd = os.pipe()
        pid = os.fork()
        if pid == 0:
            os.close(rfd)
            _child(srv, wfd, me)
        os.close(wfd)
        if os.read(rfd, 1):             # returns when the acceptor took a connection (b"" if it died before)
            failures = 0
        else:
            failures += 1
        os.close(rfd)


if __name__ == "__main__":
    main()
