"""Zygote: one interpreter per PYTHONHASHSEED that imports pycaption and the harness,
executes NO pycaption operation itself, and forks one child per job.  A forked child is
therefore a pristine interpreter with that hash seed (DESIGN section 2).

Started as:  PYTHONHASHSEED=<h> PYTHONPATH=<repo>:/verif python -c 'from sim import zygote; zygote.main()' <socket path>
(not with -m, to avoid a double import of this module).
"""
import faulthandler
import json
import os
import signal
import socket
import struct
import sys
import traceback


def send_msg(sock, obj):
    data = json.dumps(obj, ensure_ascii=True).encode("ascii")
    sock.sendall(struct.pack("!I", len(data)) + data)


def _recv_exact(sock, n):
    buf = bytearray()
    while len(buf) < n:
        chunk = sock.recv(min(1 << 20, n - len(buf)))
        if not chunk:
            raise EOFError("peer closed after %d of %d bytes" % (len(buf), n))
        buf += chunk
    return bytes(buf)


def recv_msg(sock):
    (n,) = struct.unpack("!I", _recv_exact(sock, 4))
    return json.loads(_recv_exact(sock, n).decode("ascii"))


def _child(conn):
    from . import ops
    try:
        # nothing a child prints (bs4 / cssutils warnings) may block on a pipe nobody drains
        devnull = os.open(os.devnull, os.O_WRONLY)
        os.dup2(devnull, 1)
        job = recv_msg(conn)
        faulthandler.dump_traceback_later(float(job.get("timeout", 60)), exit=True)
        try:
            res = ops.run_job(job)
            res["ok"] = True
        except BaseException as e:
            res = {"ok": False, "error": "%s: %s" % (type(e).__name__, e), "trace": traceback.format_exc()[-2000:]}
        send_msg(conn, res)
    finally:
        try:
            conn.close()
        finally:
            os._exit(0)


def main():
    path = sys.argv[1]
    # import everything a child needs *before* forking, execute nothing
    import pycaption  # noqa: F401
    import pycaption.dfxp  # noqa: F401
    from . import ops, canon, c20  # noqa: F401
    ops.corpus()
    signal.signal(signal.SIGCHLD, signal.SIG_IGN)  # auto-reap children
    srv = socket.socket(socket.AF_UNIX, socket.SOCK_STREAM)
    srv.bind(path)
    srv.listen(256)
    sys.stdout.write("READY %s\n" % os.path.abspath(pycaption.__file__))
    sys.stdout.flush()
    ppid = os.getppid()
    srv.settimeout(2.0)
    while True:
        try:
            conn, _ = srv.accept()
        except socket.timeout:
            if os.getppid() != ppid:  # orchestrator died: do not linger
                os._exit(0)
            continue
        except InterruptedError:
            continue
        pid = os.fork()
        if pid == 0:
            srv.close()
            conn.settimeout(None)
            _child(conn)
        conn.close()


if __name__ == "__main__":
    main()
