"""Deterministic simulation with fault injection for pbs/pycaption (see /verif/DESIGN.md)."""
