"""Seeded history generator: sessions, schedule, object pools, options, fault plan (DESIGN 2.3).
Every decision comes from the one random.Random handed in, in a fixed order, before anything
executes.  No sets / id()-keyed dicts are iterated here."""
from . import docs
from .ops import corpus

FORMATS = ["dfxp", "sami", "srt", "webvtt", "microdvd", "scc"]
WRITERS = ["SRTWriter", "WebVTTWriter", "DFXPWriter", "SinglePositioningDFXPWriter", "LegacyDFXPWriter",
           "SAMIWriter", "MicroDVDWriter", "SCCWriter"]

WRITER_FMT = {"SRTWriter": "srt", "WebVTTWriter": "webvtt", "DFXPWriter": "dfxp", "SinglePositioningDFXPWriter": "dfxp",
              "LegacyDFXPWriter": "dfxp", "SAMIWriter": "sami", "MicroDVDWriter": "microdvd", "SCCWriter": "scc"}
HASH_POOL_QUICK = [0, 1, 3, 5]
HASH_POOL_THOROUGH = [0, 1, 2, 3, 4, 5, 7, 11, 13, 17, 42, 1234]


def corpus_names(fmt):
    return sorted(k for k, v in corpus().items() if v["fmt"] == fmt)


# ------------------------------------------------------------------------ options
def reader_ctor(rng, fmt):
    if fmt == "dfxp":
        return {"read_invalid_positioning": True} if rng.random() < 0.3 else {}
    if fmt == "webvtt":
        kw = {}
        if rng.random() < 0.35:
            kw["ignore_timing_errors"] = False
        if rng.random() < 0.3:
            kw["time_shift_milliseconds"] = rng.choice([0, 500, -300, 3600000])
        return kw
    return {}


def reader_call(rng, fmt):
    kw = {}
    if fmt in ("srt", "webvtt", "microdvd", "scc") and rng.random() < 0.3:
        kw["lang"] = rng.choice(docs.LANGS if rng.random() < 0.8 else docs.ODD_LANGS)
    if fmt == "scc":
        if rng.random() < 0.35:
            kw["simulate_roll_up"] = True
        if rng.random() < 0.3:
            kw["offset"] = rng.choice([0, 1, 2.5, -1, 3600])
    return kw


def writer_ctor(rng, cls):
    if cls == "LegacyDFXPWriter":
        return {}
    kw = {}
    r = rng.random()
    if r < 0.35:
        kw["video_width"] = rng.choice([640, 1280])
        kw["video_height"] = rng.choice([360, 720])
    elif r < 0.42:
        kw["video_width"] = 640
    elif r < 0.47:
        kw["video_height"] = 360
    if rng.random() < 0.25:
        kw["relativize"] = False
    if rng.random() < 0.3:
        kw["fit_to_screen"] = False
    if cls in ("DFXPWriter", "SinglePositioningDFXPWriter") and rng.random() < 0.35:
        kw["write_inline_positioning"] = True
    if cls == "SinglePositioningDFXPWriter" and rng.random() < 0.6:
        kw["default_positioning"] = docs.gen_layout(rng, abs_units=rng.random() < 0.2)
    return kw


def writer_call(rng, cls, langs_hint):
    kw = {}
    if cls in ("DFXPWriter", "SinglePositioningDFXPWriter", "LegacyDFXPWriter") and rng.random() < 0.35:
        if rng.random() < 0.5:
            kw["force_idx"] = rng.randrange(4)        # a language the set really has
        else:
            kw["force"] = rng.choice(langs_hint + ["xx"]) if langs_hint else "xx"
    if cls == "WebVTTWriter" and rng.random() < 0.3:
        if rng.random() < 0.6:
            kw["lang_idx"] = rng.randrange(4)
        elif langs_hint:
            kw["lang"] = rng.choice(langs_hint)
    return kw


# -------------------------------------------------------------------------- edits
def gen_edit(rng, kinds):
    k = rng.choice(kinds)
    a = {"lang": rng.randrange(4), "cap": rng.randrange(6), "node": rng.randrange(6)}
    if k == "add_style":
        a = {"sel": rng.choice(["zz", "c1", "p", "encc"]), "rules": docs.gen_style(rng)}
    elif k == "set_styles":
        a = {"styles": {s: docs.gen_style(rng) for s in rng.sample(["c1", "q", "p"], rng.randint(0, 2))}}
    elif k == "style_item":
        a = {"sel": rng.choice(["c1", "p", "encc", "s0", "default", "zz"]), "k": rng.choice(["color", "italics", "text-align"]),
             "v": rng.choice(["blue", True, "left"])}
        if rng.random() < 0.7:
            a["sel_idx"] = rng.randrange(8)
    elif k in ("touch_styles", "touch_nodes", "touch_lists"):
        a = {"tag": "#" + str(rng.randrange(1000))}
    elif k in ("cap_style_item", "node_style_item"):
        kk, vv = rng.choice(docs.STYLE_KEYS)
        a.update({"k": kk, "v": vv})
    elif k == "cap_time":
        s = rng.choice([0, 1000000, 5000000, 9209000])
        a.update({"start": s, "end": s + rng.choice([1, 500000, 2000000])})
    elif k == "node_content":
        a.update({"text": docs.text(rng)})
    elif k == "nodes_append":
        a.update({"node_spec": rng.choice([{"t": "text", "c": docs.text(rng)}, {"t": "break"},
                                           {"t": "style", "start": True, "c": docs.gen_style(rng)}])})
    elif k == "caps_append":
        a.update({"caption": docs.gen_caption(rng, 100000, 101000, [], 0.0, rng.choice(["default", "mixed"]))})
    elif k == "set_captions":
        a = {"new_lang": rng.choice(docs.LANGS), "list": {"captions": [
            docs.gen_caption(rng, 1000, 2000, [], 0.0, "default")], "layout": None}}
    elif k == "set_layout":
        a.update({"level": rng.choice(["set", "lang", "caption", "node"]),
                  "layout": docs.gen_layout(rng) if rng.random() < 0.8 else None})
    elif k == "adjust_timing":
        a = {"offset": rng.choice([0, 1000000, -2000000, 500]), "rate_skew": rng.choice([1.0, 1.0, 1.1, 0.5])}
    elif k in ("nodes_pop", "caps_pop", "merge_concurrent"):
        pass
    return k, a


EDIT_KINDS = ["add_style", "set_styles", "style_item", "cap_style_item", "node_style_item", "cap_time", "node_content",
              "nodes_append", "nodes_pop", "caps_append", "caps_pop", "set_captions", "set_layout", "adjust_timing",
              "merge_concurrent", "touch_styles", "touch_nodes", "touch_lists", "touch_styles", "touch_nodes", "touch_lists"]


# ------------------------------------------------------------------------ history
class Gen:
    def __init__(self, rng, prop, tier="quick"):
        self.rng = rng
        self.prop = prop
        self.tier = tier
        self.nsets = 0
        self.sets = []        # handles in creation order, with hints
        self.hint = {}        # handle -> {"fmt":..., "langs":[...]}
        self.last_doc_of_slot = {}
        self.tapes = {}
        self.inline_docs = {}
        self.nwrites = 0
        self.write_fmt = []
        self.ops = []

    def choose_doc(self, fmt, knobs, slot=None):
        rng = self.rng
        r = rng.random()
        prev = self.last_doc_of_slot.get(slot)
        if prev is None:
            prev = self.last_doc_of_slot.get("fmt:" + fmt)   # the same document read again by another reader object
        if prev is not None and r < knobs["p_repeat_doc"]:
            return prev
        tapes = self.tapes.setdefault(fmt, [])
        inl = self.inline_docs.setdefault(fmt, [])
        if inl and fmt in ("dfxp", "sami") and rng.random() < knobs["p_sibling"] * 0.6:
            doc = {"inline": docs.attr_sibling(rng, rng.choice(inl))}
            inl.append(doc["inline"])
            return doc
        if tapes and rng.random() < knobs["p_sibling"]:
            # a sibling of a document generated earlier in this history: same choice tape, a few decisions redrawn
            t = rng.choice(tapes)
            tr = docs.TapeRng(rng, t.sibling_tape(rng))
            doc = {"inline": docs.GEN[fmt](tr)}
            tapes.append(tr)
            return doc
        if r < knobs["p_corpus"]:
            return "corpus:" + rng.choice(corpus_names(fmt))
        tr = docs.TapeRng(rng)
        tapes.append(tr)
        if fmt == "scc":
            begin = None
            if prev is not None and rng.random() < 0.5:
                begin = docs.last_control_word(doc_text_local(prev))
            return {"inline": docs.gen_scc(tr, begin_with=begin)}
        if fmt in ("sami", "dfxp") and rng.random() < knobs["p_multilang"]:
            return {"inline": docs.GEN[fmt](tr, nlangs=rng.choice([2, 3, 3, 4]))}
        return {"inline": docs.GEN[fmt](tr)}

    def new_handle(self):
        h = "s%d" % self.nsets
        self.nsets += 1
        return h


def doc_text_local(doc):
    if isinstance(doc, str):
        return corpus()[doc[7:]]["text"]
    return doc["inline"]


def gen_plan(run_seed, prop, tier="quick", faults=True):
    """The whole plan of one simulated run, as plain data."""
    import random
    rng = random.Random(run_seed)
    hp = HASH_POOL_QUICK if tier == "quick" else HASH_POOL_THOROUGH
    hs = rng.sample(hp, 3)
    plan = {"property": prop, "run_seed": run_seed, "hash_seeds": {"history": hs[0], "ref": hs[1:]}}
    g = Gen(rng, prop, tier)
    # ---- swarm configuration
    fmts = rng.sample(FORMATS, rng.choice([1, 1, 2, 3, 6]))
    writers = rng.sample(WRITERS, rng.choice([1, 2, 3, 8]))
    edit_kinds = rng.sample(EDIT_KINDS, rng.choice([1, 2, 4, len(EDIT_KINDS)]))
    knobs = {
        "p_corpus": rng.choice([0.0, 0.3, 0.6, 1.0]),
        "p_repeat_doc": rng.choice([0.0, 0.3, 0.6]),
        "p_multilang": rng.choice([0.2, 0.6, 1.0]),
        "p_sibling": rng.choice([0.0, 0.3, 0.6]),
        "p_chain": rng.choice([0.0, 0.0, 0.15, 0.4]),
        "p_build": rng.choice([0.0, 0.2, 0.5]) if prop == "C09" else rng.choice([0.0, 0.1, 0.3]),
        "reader_pool": rng.choice([0, 1, 1, 2, 3]) if prop == "C10" else 0,
        "writer_pool": rng.choice([0, 1, 1, 2, 3]),
        "p_conv": rng.choice([0.0, 0.0, 0.3]),
        "p_f2": (rng.choice([0.0, 0.0, 0.15, 0.4]) if faults else 0.0),
        "p_unbalanced": rng.choice([0.0, 0.0, 0.5, 1.0]),
        "p_abs": rng.choice([0.0, 0.25, 0.6]),
    }
    # draw the same number of values whether or not faults are on
    if prop == "C09":
        mix = {"read": 0.25, "write": 0.75, "edit": 0.0}
    else:
        mix = rng.choice([{"read": 0.6, "write": 0.1, "edit": 0.3}, {"read": 0.8, "write": 0.05, "edit": 0.15},
                          {"read": 0.45, "write": 0.25, "edit": 0.3}])
    nsessions = rng.randint(1, 4)
    scripts = [rng.randint(3, 12) for _ in range(nsessions)]
    # pool slots: fixed class + ctor per slot
    rslots = {}
    for fmt in fmts:
        for k in range(knobs["reader_pool"]):
            rslots.setdefault(fmt, []).append(("pool:r_%s_%d" % (fmt, k), reader_ctor(rng, fmt)))
    wslots = {}
    for w in writers:
        for k in range(knobs["writer_pool"]):
            wslots.setdefault(w, []).append(("pool:w_%s_%d" % (w, k), writer_ctor(rng, w)))
    plan["config"] = {"formats": fmts, "writers": writers, "edits": edit_kinds, "knobs": knobs, "mix": mix,
                      "sessions": scripts}
    # ---- interleaving: next session = PRNG choice among unfinished ones
    remaining = list(scripts)
    session_sets = [[] for _ in scripts]
    order = []
    while any(remaining):
        live = [i for i, r in enumerate(remaining) if r > 0]
        s = rng.choice(live)
        remaining[s] -= 1
        order.append(s)
    plan["schedule"] = order
    for s in order:
        mine = session_sets[s]
        allsets = g.sets
        r = rng.random()
        kind = "read" if r < mix["read"] else ("write" if r < mix["read"] + mix["write"] else "edit")
        if not allsets:
            kind = "read"
        if kind == "read":
            if rng.random() < knobs["p_build"]:
                h = g.new_handle()
                rec = docs.gen_recipe(rng, abs_units=rng.random() < knobs["p_abs"], unbalanced=knobs["p_unbalanced"],
                                      scc_safe=rng.random() < 0.3)
                op = {"kind": "build", "recipe": rec, "out": h, "session": s}
                g.hint[h] = {"fmt": "api", "langs": [l["lang"] for l in rec["langs"]]}
            else:
                fmt = rng.choice(fmts)
                slot = None
                ctor = None
                if rslots.get(fmt) and rng.random() < 0.8:
                    slot, ctor = rng.choice(rslots[fmt])
                if ctor is None:
                    ctor = reader_ctor(rng, fmt)
                doc = g.choose_doc(fmt, knobs, slot)
                if g.nwrites and rng.random() < knobs["p_chain"]:
                    # conversion chain: read the output of an earlier write with the reader of that writer's format
                    wi = rng.randrange(g.nwrites)
                    fmt = g.write_fmt[wi]
                    doc = {"from_write": wi}
                    slot = None
                    ctor = None
                    if rslots.get(fmt) and rng.random() < 0.5:
                        slot, ctor = rng.choice(rslots[fmt])
                    if ctor is None:
                        ctor = reader_ctor(rng, fmt)
                elif isinstance(doc, dict) and "inline" in doc:
                    lst = g.inline_docs.setdefault(fmt, [])
                    if doc["inline"] not in lst:
                        lst.append(doc["inline"])
                elif fmt in ("dfxp", "sami"):
                    g.inline_docs.setdefault(fmt, []).append(doc_text_local(doc))   # corpus documents get siblings too
                h = g.new_handle()
                op = {"kind": "read", "cls": docs.READER_OF[fmt], "ctor": ctor, "call": reader_call(rng, fmt),
                      "via": slot or "fresh", "doc": doc, "out": h, "session": s}
                if "from_write" not in doc:
                    if slot:
                        g.last_doc_of_slot[slot] = doc
                    g.last_doc_of_slot["fmt:" + fmt] = doc
                if rng.random() < knobs["p_conv"] and not op["call"]:
                    op["conv"] = "c%d" % s
                g.hint[h] = {"fmt": fmt, "langs": ["en-US", "en", "und"] + ([op["call"]["lang"]] if "lang" in op["call"] else [])}
            g.sets.append(h)
            mine.append(h)
        elif kind == "write":
            # bias: a *different* live set than the last one this session touched, any session's set
            src = rng.choice(allsets if rng.random() < 0.5 or not mine else mine)
            w = rng.choice(writers)
            slot = None
            ctor = None
            if wslots.get(w) and rng.random() < 0.8:
                slot, ctor = rng.choice(wslots[w])
            if ctor is None:
                ctor = writer_ctor(rng, w)
            op = {"kind": "write", "cls": w, "ctor": ctor, "call": writer_call(rng, w, g.hint[src]["langs"]),
                  "via": slot or "fresh", "in": src, "session": s}
            g.nwrites += 1
            g.write_fmt.append(WRITER_FMT[w])
            if rng.random() < knobs["p_conv"] and not op["call"]:
                op["conv"] = "c%d" % s
        else:
            src = rng.choice(mine if mine and rng.random() < 0.7 else allsets)
            k, a = gen_edit(rng, edit_kinds)
            op = {"kind": "edit", "edit": k, "args": a, "in": src, "session": s}
        # F2 placement: a fraction of the op's own line events; made concrete after the dry run
        if op["kind"] in ("read", "write"):
            u = rng.random()
            frac = rng.random()
            if u < knobs["p_f2"]:
                op["fault"] = {"kind": "F2", "frac": frac}
        g.ops.append(op)
    plan["ops"] = g.ops
    return plan


# ------------------------------------------------------------- crash-site sweeps (DESIGN 3, 4)
def gen_sweep_base(run_seed, prop, tier="quick", target_cls=None):
    """A short history whose op `target` is to be cut by an injected exception at many different
    line events, followed by probe operations on fresh objects that must still equal their
    references (process-global isolation after a crash)."""
    import random
    rng = random.Random(run_seed)
    hp = HASH_POOL_QUICK if tier == "quick" else HASH_POOL_THOROUGH
    hs = rng.sample(hp, 3)
    knobs = {"p_corpus": 0.5, "p_repeat_doc": 0.0, "p_multilang": 0.5, "p_sibling": 0.3}
    g = Gen(rng, prop, tier)
    ops = []

    def read_op(fmt, via="fresh"):
        h = g.new_handle()
        op = {"kind": "read", "cls": docs.READER_OF[fmt], "ctor": reader_ctor(rng, fmt), "call": reader_call(rng, fmt),
              "via": via, "doc": g.choose_doc(fmt, knobs), "out": h, "session": 0}
        return op

    def build_op():
        h = g.new_handle()
        rec = docs.gen_recipe(rng, abs_units=rng.random() < 0.3, unbalanced=rng.choice([0.0, 0.0, 0.5]),
                              scc_safe=rng.random() < 0.3)
        return {"kind": "build", "recipe": rec, "out": h, "session": 0}

    target_is_write = (prop == "C09") if rng.random() < 0.8 else (prop != "C09")
    if target_cls is not None:
        target_is_write = target_cls in WRITERS
    # two live sets exist before the crash
    first = build_op() if rng.random() < 0.4 else read_op(rng.choice(FORMATS))
    second = build_op() if rng.random() < 0.3 else read_op(rng.choice(FORMATS))
    ops += [first, second]
    # a canonical plain set (no styles, no layouts: writers fall back to their module-level defaults)
    plain = {"kind": "read", "cls": "SRTReader", "ctor": {}, "call": {}, "via": "fresh",
             "doc": {"inline": "1\n00:00:01,000 --> 00:00:02,000\nplain probe\n"}, "out": g.new_handle(), "session": 0}
    ops.append(plain)
    if target_is_write:
        w = target_cls or rng.choice(WRITERS)
        ctor = writer_ctor(rng, w)
        if rng.random() < 0.6 and w != "LegacyDFXPWriter":
            ctor.setdefault("video_width", 640)
            ctor.setdefault("video_height", 360)
        target = {"kind": "write", "cls": w, "ctor": ctor, "call": {}, "via": "fresh", "in": first["out"], "session": 0}
    else:
        fmt = rng.choice(FORMATS)
        if target_cls is not None:
            fmt = [f for f in FORMATS if docs.READER_OF[f] == target_cls][0]
        target = read_op(fmt, via="pool:r_target" if rng.random() < 0.5 else "fresh")
    ops.append(target)
    t = len(ops) - 1
    # probes on fresh objects, in a second session
    probes = []
    wl = list(WRITERS)
    rng.shuffle(wl)
    nw = 4 if tier == "quick" else 8
    if target_is_write and target["cls"] not in wl[:nw]:
        wl = [target["cls"]] + wl
    for w in wl[:nw]:
        kw = {"video_width": 640, "video_height": 360} if (w != "LegacyDFXPWriter" and rng.random() < 0.7) else {}
        probes.append({"kind": "write", "cls": w, "ctor": kw, "call": {}, "via": "fresh",
                       "in": rng.choice([first["out"], second["out"], plain["out"]]), "session": 1})
    if target_is_write:
        # the crashed writer's own class, fresh object, on the plain set and on the crashed write's input
        for src in (plain["out"], first["out"]):
            probes.append({"kind": "write", "cls": target["cls"], "ctor": {}, "call": {}, "via": "fresh", "in": src, "session": 1})
    fl = list(FORMATS)
    rng.shuffle(fl)
    nr = 3 if tier == "quick" else 6
    if not target_is_write:
        same = dict(target)
        same = {k: v for k, v in same.items()}
        same["via"] = "fresh"
        same["out"] = g.new_handle()
        same["session"] = 1
        probes.append(same)
    for fmt in fl[:nr]:
        op = read_op(fmt)
        op["session"] = 1
        probes.append(op)
    if prop == "C10":
        k, a = gen_edit(rng, EDIT_KINDS)
        probes.append({"kind": "edit", "edit": k, "args": a, "in": second["out"], "session": 1})
    rng.shuffle(probes)
    ops += probes
    return {"property": prop, "run_seed": run_seed, "hash_seeds": {"history": hs[0], "ref": hs[1:]}, "ops": ops,
            "sweep": {"target": t}}
