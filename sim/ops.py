"""Executes operation lists (plain JSON data) against the real pycaption.

This module is imported by the zygote but executes no pycaption operation at
import time.  `run_history` is what a forked child runs.
"""
import json
import os
import sys

from . import canon

_CORPUS = None


class InjectedFault(Exception):
    """F2: raised by the line hook at an arbitrary line inside read()/write()."""


class HarnessBug(Exception):
    pass


def safe_str(e, limit=300):
    """str(e) may itself raise (an exception class whose __str__ indexes missing args): never let that hurt the harness."""
    try:
        return str(e)[:limit]
    except BaseException:
        return "<unprintable %s>" % type(e).__name__


def exc_mro(e):
    return [c.__name__ for c in type(e).__mro__ if c not in (object, BaseException)]


class NoSuchOutput(Exception):
    """A read of 'the n-th write output' when no write has succeeded yet: the op is skipped."""


def corpus():
    global _CORPUS
    if _CORPUS is None:
        p = os.path.join(os.path.dirname(os.path.abspath(__file__)), "..", "corpus", "corpus.json")
        with open(p, encoding="utf-8") as f:
            _CORPUS = json.load(f)
    return _CORPUS


def doc_text(doc):
    if isinstance(doc, str):
        if doc.startswith("corpus:"):
            return corpus()[doc[7:]]["text"]
        raise HarnessBug("bad doc ref " + doc[:40])
    return doc["inline"]


# ----------------------------------------------------------------- lookup tables
def _classes():
    import pycaption
    from pycaption.dfxp import SinglePositioningDFXPWriter, LegacyDFXPWriter
    R = {n: getattr(pycaption, n) for n in
         ("DFXPReader", "SAMIReader", "SRTReader", "WebVTTReader", "MicroDVDReader", "SCCReader")}
    W = {n: getattr(pycaption, n) for n in
         ("DFXPWriter", "SAMIWriter", "SRTWriter", "WebVTTWriter", "MicroDVDWriter", "SCCWriter")}
    W["SinglePositioningDFXPWriter"] = SinglePositioningDFXPWriter
    W["LegacyDFXPWriter"] = LegacyDFXPWriter
    return R, W


def mk_size(s):
    from pycaption.geometry import Size, UnitEnum
    if s is None:
        return None
    return Size(s[0], UnitEnum(s[1]))


def mk_layout(spec):
    from pycaption.geometry import (Layout, Point, Stretch, Padding, Alignment,
                                    HorizontalAlignmentEnum, VerticalAlignmentEnum)
    if spec is None:
        return None
    o = spec.get("origin")
    e = spec.get("extent")
    p = spec.get("padding")
    a = spec.get("alignment")
    return Layout(
        origin=None if o is None else Point(mk_size(o[0]), mk_size(o[1])),
        extent=None if e is None else Stretch(mk_size(e[0]), mk_size(e[1])),
        padding=None if p is None else Padding(*[mk_size(x) for x in p]),
        alignment=None if a is None else Alignment(
            None if a[0] is None else HorizontalAlignmentEnum(a[0]),
            None if a[1] is None else VerticalAlignmentEnum(a[1])),
        webvtt_positioning=spec.get("webvtt"),
    )


def mk_node(spec):
    from pycaption import CaptionNode
    t = spec["t"]
    lay = mk_layout(spec.get("layout"))
    if t == "text":
        return CaptionNode.create_text(spec["c"], layout_info=lay)
    if t == "break":
        return CaptionNode.create_break(layout_info=lay)
    if t == "style":
        return CaptionNode.create_style(spec["start"], dict(spec["c"]), layout_info=lay)
    raise HarnessBug("node type " + str(t))


def mk_caption(spec, shared, explicit_style=False):
    from pycaption import Caption
    nodes = [mk_node(n) for n in spec["nodes"]]
    kw = {}
    st = spec.get("style", "default")
    if explicit_style and not isinstance(st, dict):
        st = {}   # edits of read-derived sets never rely on the library's default arguments
    if isinstance(st, dict):
        kw["style"] = dict(st)
    elif isinstance(st, str) and st.startswith("shared:"):
        kw["style"] = shared.setdefault(st, dict(spec.get("shared_value", {})))
    if spec.get("layout") is not None:
        kw["layout_info"] = mk_layout(spec["layout"])
    return Caption(spec["start"], spec["end"], nodes, **kw)


def mk_caplist(spec, shared, explicit_style=False):
    from pycaption import CaptionList
    caps = [mk_caption(c, shared, explicit_style) for c in spec["captions"]]
    return CaptionList(caps, layout_info=mk_layout(spec.get("layout")))


def mk_set(recipe):
    from pycaption import CaptionSet
    shared = {}
    d = {}
    for l in recipe["langs"]:
        d[l["lang"]] = mk_caplist(l, shared)
    kw = {}
    if isinstance(recipe.get("styles", "default"), dict):
        kw["styles"] = {k: dict(v) for k, v in recipe["styles"].items()}
    if recipe.get("layout") is not None:
        kw["layout_info"] = mk_layout(recipe["layout"])
    return CaptionSet(d, **kw)


def _ctor_kwargs(cls_name, ctor):
    kw = dict(ctor or {})
    if "default_positioning" in kw:
        kw["default_positioning"] = mk_layout(kw["default_positioning"])
    return kw


# ------------------------------------------------------------------------- edits
def _pick(seq, idx):
    n = len(seq)
    return None if n == 0 else idx % n


def apply_edit(cs, name, a):
    """Edits a user may legitimately make through public attributes / methods.
    Returns 'ok' or 'noop' (index into an empty list etc.)."""
    langs = cs.get_languages()

    def cap_list():
        li = _pick(langs, a.get("lang", 0))
        return None if li is None else cs.get_captions(langs[li])

    def cap():
        cl = cap_list()
        if cl is None:
            return None
        ci = _pick(cl, a.get("cap", 0))
        return None if ci is None else cl[ci]

    if name == "add_style":
        cs.add_style(a["sel"], dict(a["rules"]))
    elif name == "set_styles":
        cs.set_styles({k: dict(v) for k, v in a["styles"].items()})
    elif name == "style_item":
        sel = a.get("sel")
        if "sel_idx" in a:   # the n-th selector the set actually has (chosen when the edit executes)
            keys = [k for k, _ in cs.get_styles()]
            if not keys:
                return "noop"
            sel = keys[a["sel_idx"] % len(keys)]
        cs.get_style(sel)[a["k"]] = a["v"]
    elif name == "touch_styles":
        # one legitimate edit per style dict the public model exposes: set styles, caption styles, style nodes
        tag = a["tag"]
        n = 0
        for _sel, rules in cs.get_styles():
            if isinstance(rules, dict):
                rules["x-touched"] = tag
                n += 1
        for lang in langs:
            for c in cs.get_captions(lang):
                if isinstance(c.style, dict):
                    c.style["x-touched"] = tag
                    n += 1
                for nd in c.nodes:
                    if nd.type_ == 2 and isinstance(nd.content, dict):
                        nd.content["x-touched"] = tag
                        n += 1
        return "ok" if n else "noop"
    elif name == "touch_nodes":
        tag = a["tag"]
        n = 0
        for lang in langs:
            for c in cs.get_captions(lang):
                c.start = c.start + 1
                c.end = c.end + 1
                for nd in c.nodes:
                    if nd.type_ == 1 and isinstance(nd.content, str):
                        nd.content = nd.content + tag
                    elif nd.type_ == 3:
                        nd.content = tag
                    nd.position = tag
                    n += 1
        return "ok" if n else "noop"
    elif name == "touch_lists":
        from pycaption import CaptionNode, Caption
        tag = a["tag"]
        n = 0
        for lang in langs:
            cl = cs.get_captions(lang)
            for c in list(cl):
                c.nodes.append(CaptionNode.create_text(tag))
                n += 1
            cl.append(Caption(86400000000, 86401000000, [CaptionNode.create_text(tag)], style={}))
        return "ok" if n else "noop"
    elif name == "cap_style_item":
        c = cap()
        if c is None:
            return "noop"
        c.style[a["k"]] = a["v"]
    elif name == "cap_time":
        c = cap()
        if c is None:
            return "noop"
        c.start = a["start"]
        c.end = a["end"]
    elif name == "node_content":
        c = cap()
        if c is None or not c.nodes:
            return "noop"
        n = c.nodes[a.get("node", 0) % len(c.nodes)]
        if n.type_ != 1:
            return "noop"
        n.content = a["text"]
    elif name == "node_style_item":
        c = cap()
        if c is None or not c.nodes:
            return "noop"
        n = c.nodes[a.get("node", 0) % len(c.nodes)]
        if n.type_ != 2 or not isinstance(n.content, dict):
            return "noop"
        n.content[a["k"]] = a["v"]
    elif name == "nodes_append":
        c = cap()
        if c is None:
            return "noop"
        c.nodes.append(mk_node(a["node_spec"]))
    elif name == "nodes_pop":
        c = cap()
        if c is None or len(c.nodes) < 2:
            return "noop"
        c.nodes.pop()
    elif name == "caps_append":
        cl = cap_list()
        if cl is None:
            return "noop"
        cl.append(mk_caption(a["caption"], {}, explicit_style=True))
    elif name == "caps_pop":
        cl = cap_list()
        if cl is None or len(cl) < 2:
            return "noop"
        cl.pop(a.get("cap", 0) % len(cl))
    elif name == "set_captions":
        cs.set_captions(a["new_lang"], mk_caplist(a["list"], {}, explicit_style=True))
    elif name == "set_layout":
        lay = mk_layout(a["layout"])
        lvl = a["level"]
        if lvl == "set":
            cs.layout_info = lay
        elif lvl == "lang":
            li = _pick(langs, a.get("lang", 0))
            if li is None:
                return "noop"
            cs.set_layout_info(langs[li], lay)
        elif lvl == "caption":
            c = cap()
            if c is None:
                return "noop"
            c.layout_info = lay
        else:
            c = cap()
            if c is None or not c.nodes:
                return "noop"
            c.nodes[a.get("node", 0) % len(c.nodes)].layout_info = lay
    elif name == "adjust_timing":
        cs.adjust_caption_timing(offset=a["offset"], rate_skew=a["rate_skew"])
    elif name == "merge_concurrent":
        from pycaption.base import merge_concurrent_captions
        merge_concurrent_captions(cs)
    else:
        raise HarnessBug("unknown edit " + name)
    return "ok"


# ------------------------------------------------------------- F2: where faults may land
_CLEANUP = None


def cleanup_lines(prefix=None):
    """(relative file, line) pairs of pycaption that lie inside `except` handlers, `finally` blocks or
    __exit__/__del__ methods.  The fault model is a single exception arriving while the library runs its normal
    path; cleanup code then runs to completion (an exception *during* cleanup is a double fault and is not injected:
    code that restores state in a `finally` is exception-safe in the usual sense)."""
    global _CLEANUP
    if _CLEANUP is not None:
        return _CLEANUP
    import ast
    prefix = prefix or _pycaption_prefix()
    out = set()
    for root, _dirs, files in os.walk(prefix):
        for fn in files:
            if not fn.endswith(".py"):
                continue
            path = os.path.join(root, fn)
            rel = path[len(prefix):]
            try:
                with open(path, encoding="utf-8") as f:
                    tree = ast.parse(f.read())
            except Exception:
                continue
            for node in ast.walk(tree):
                spans = []
                if isinstance(node, (ast.Try, getattr(ast, "TryStar", ast.Try))):
                    for h in node.handlers:
                        spans.append((h.lineno, h.end_lineno))
                    for st in node.finalbody:
                        spans.append((st.lineno, st.end_lineno))
                elif isinstance(node, (ast.FunctionDef, ast.AsyncFunctionDef)) and node.name in ("__exit__", "__aexit__", "__del__"):
                    spans.append((node.lineno, node.end_lineno))
                for a, b in spans:
                    for ln in range(a, (b or a) + 1):
                        out.add((rel, ln))
    _CLEANUP = out
    return out


# ------------------------------------------------------------- F2: line-event hook
class LineHook:
    """Counts 'line' events in frames whose code lives under <repo>/pycaption and
    raises InjectedFault at the n-th one (n=None: count only)."""

    def __init__(self, prefix, ordinal=None, record_sites=False):
        self.prefix = prefix
        self.ordinal = ordinal
        self.count = 0
        self.fired_at = None
        self.sites = {} if record_sites else None   # "file:line" -> [first ordinal, last ordinal, hits]

    def _global(self, frame, event, arg):
        if frame.f_code.co_filename.startswith(self.prefix):
            return self._local
        return None

    def _local(self, frame, event, arg):
        if event == "line":
            self.count += 1
            if self.sites is not None:
                key = "%s:%d" % (frame.f_code.co_filename[len(self.prefix):], frame.f_lineno)
                e = self.sites.get(key)
                if e is None:
                    self.sites[key] = [self.count, self.count, 1]
                else:
                    e[1] = self.count
                    e[2] += 1
            if self.ordinal is not None and self.count >= self.ordinal and self.fired_at is None and \
                    (frame.f_code.co_filename[len(self.prefix):], frame.f_lineno) not in cleanup_lines(self.prefix):
                self.fired_at = "%s:%d" % (frame.f_code.co_filename[len(self.prefix):], frame.f_lineno)
                raise InjectedFault("injected at line event %d (%s)" % (self.count, self.fired_at))
        return self._local

    def __enter__(self):
        sys.settrace(self._global)
        return self

    def __exit__(self, *a):
        sys.settrace(None)
        return False


def _pycaption_prefix():
    import pycaption
    return os.path.dirname(os.path.abspath(pycaption.__file__)) + os.sep


# ----------------------------------------------------------------- history runner
class Env:
    def __init__(self):
        self.R, self.W = _classes()
        self.sets = {}
        self.objs = {}
        self.convs = {}
        self.last_dump = {}
        self.outputs = []
        self.resolved_doc = None
        self.prefix = _pycaption_prefix()

    def obj(self, op, table):
        via = op.get("via", "fresh")
        cls = table[op["cls"]]
        kw = _ctor_kwargs(op["cls"], op.get("ctor"))
        if via == "fresh":
            return cls(**kw)
        if via not in self.objs:
            self.objs[via] = cls(**kw)
        o = self.objs[via]
        if type(o) is not cls:
            raise HarnessBug("pool slot %s holds %s, op wants %s" % (via, type(o).__name__, op["cls"]))
        return o

    def conv(self, name):
        from pycaption import CaptionConverter
        if name not in self.convs:
            self.convs[name] = CaptionConverter()
        return self.convs[name]

    def snapshot_changes(self):
        changed = {}
        for h in sorted(self.sets):
            try:
                d = canon.dump(self.sets[h])
            except Exception as e:  # a set the dump cannot walk is itself a finding for the judge
                d = "<undumpable %s: %s>" % (type(e).__name__, e)
            if self.last_dump.get(h) != d:
                changed[h] = d
                self.last_dump[h] = d
        return changed


def _do(env, op):
    k = op["kind"]
    if k == "read":
        d = op["doc"]
        if isinstance(d, dict) and "from_write" in d:
            # the document is what the n-th successful write of this history returned (a conversion chain)
            if not env.outputs:
                raise NoSuchOutput()
            text = env.outputs[d["from_write"] % len(env.outputs)]
            env.resolved_doc = text
        else:
            text = doc_text(d)
        reader = env.obj(op, env.R)
        call = dict(op.get("call") or {})
        if op.get("conv"):
            if call:
                raise HarnessBug("converter read takes no call kwargs")
            c = env.conv(op["conv"])
            c.read(text, reader)
            cs = c.captions
        else:
            cs = reader.read(text, **call)
        env.sets[op["out"]] = cs
        return {"out": op["out"]}
    if k == "build":
        env.sets[op["out"]] = mk_set(op["recipe"])
        return {"out": op["out"]}
    if k == "write":
        cs = env.sets[op["in"]]
        writer = env.obj(op, env.W)
        call = dict(op.get("call") or {})
        # "the n-th language the set actually has", resolved when the op executes
        for key, idx in (("force", "force_idx"), ("lang", "lang_idx")):
            if idx in call:
                n = call.pop(idx)
                try:
                    langs = list(cs.get_languages())
                except Exception:
                    langs = []
                if langs:
                    call[key] = langs[n % len(langs)]
        if op.get("conv"):
            if call:
                raise HarnessBug("converter write takes no call kwargs")
            c = env.conv(op["conv"])
            c.captions = cs
            text = c.write(writer)
        else:
            text = writer.write(cs, **call)
        if not isinstance(text, str):
            text = "<non-str %s>" % type(text).__name__
        env.outputs.append(text)
        return {"text": text}
    if k == "edit":
        return {"effect": apply_edit(env.sets[op["in"]], op["edit"], op.get("args") or {})}
    if k == "detect":
        import pycaption
        r = pycaption.detect_format(doc_text(op["doc"]))
        return {"detected": None if r is None else r.__name__}
    raise HarnessBug("unknown op kind " + str(k))


def run_history(job):
    """Executes job['ops'] in order in this (forked, otherwise pristine) process.
    Returns one record per op."""
    env = Env()
    count_lines = bool(job.get("count_lines"))
    records = []
    for i, op in enumerate(job["ops"]):
        rec = {"i": i, "status": "ok"}
        fault = op.get("fault") if not job.get("faults_off") else None
        hook = None
        traced = op["kind"] in ("read", "write")
        if traced and fault and fault.get("kind") == "F2":
            hook = LineHook(env.prefix, int(fault["ordinal"]))
        elif traced and count_lines:
            hook = LineHook(env.prefix, None, record_sites=bool(job.get("record_sites")))
        if op["kind"] in ("write", "edit") and op["in"] not in env.sets:
            rec["status"] = "skipped"  # input set does not exist (its creation raised)
            rec["changed"] = env.snapshot_changes()
            records.append(rec)
            continue
        env.resolved_doc = None
        try:
            if hook is not None:
                with hook:
                    res = _do(env, op)
            else:
                res = _do(env, op)
            rec.update(res)
        except NoSuchOutput:
            rec["status"] = "skipped"
        except InjectedFault as e:
            rec["status"] = "injected"
            rec["exc"] = "InjectedFault"
        except HarnessBug:
            raise
        except Exception as e:  # natural raise (F3) -- ordinary error handling by the client
            rec["status"] = "raised"
            rec["exc"] = type(e).__name__
            rec["mro"] = exc_mro(e)
            rec["msg"] = safe_str(e)
        if env.resolved_doc is not None:
            rec["resolved_doc"] = env.resolved_doc
        if hook is not None:
            rec["lines"] = hook.count
            if hook.fired_at:
                rec["fired_at"] = hook.fired_at
            if hook.sites is not None:
                rec["sites"] = sorted([k] + v for k, v in hook.sites.items())
        rec["changed"] = env.snapshot_changes()
        records.append(rec)
    return {"records": records}


# ------------------------------------------------------------------ C20 batch job
DOCUMENTED_ORDER = ("DFXPReader", "MicroDVDReader", "WebVTTReader", "SAMIReader", "SRTReader", "SCCReader")


def _reader_name(r, R):
    """The documented name of what detect_format returned, by identity (a renamed class that is still exported
    under the documented name is that reader); anything else by its own name / repr."""
    if r is None:
        return None
    for name in DOCUMENTED_ORDER:
        if r is R[name]:
            return name
    for name in DOCUMENTED_ORDER:
        # a subclass of a documented reader (whatever it is called) is a reader class of that format
        if isinstance(r, type) and isinstance(R[name], type) and issubclass(r, R[name]):
            return name
    return getattr(r, "__name__", None) or repr(r)


def detect_one(s, R=None):
    """What detect_format does with s, and what each documented sniffer does on its own (fresh object each)."""
    import pycaption
    if R is None:
        R, _ = _classes()
    try:
        r = pycaption.detect_format(s)
        df = ["ret", _reader_name(r, R)]
    except BaseException as e:
        # the documented error is judged with isinstance: a more specific subclass is still that error
        df = ["exc", "CaptionReadNoCaptions" if isinstance(e, pycaption.CaptionReadNoCaptions) else type(e).__name__]
    own = []
    for name in DOCUMENTED_ORDER:
        try:
            v = R[name]().detect(s)
            own.append(1 if (v is not NotImplemented and v) else 0)
        except BaseException as e:
            own.append("exc:" + type(e).__name__)
    return [df, own]


def run_detect_batch(job):
    R, _ = _classes()
    return {"results": [detect_one(s, R) for s in job["blobs"]]}


def run_pipeline_batch(job):
    """C20 fault-free pipelines: build/read a set, write it, detect the output, read it back."""
    import pycaption
    R, W = _classes()
    out = []
    for p in job["pipelines"]:
        rec = {}
        try:
            if "recipe" in p:
                cs = mk_set(p["recipe"])
            else:
                cs = R[p["reader"]]().read(doc_text(p["doc"]))
            texts = []
            for lang in cs.get_languages():
                for c in cs.get_captions(lang):
                    texts += [n.content for n in c.nodes if n.type_ == 1 and isinstance(n.content, str)]
            marks = []
            for probe in texts + ["\n".join(texts)]:
                if not probe:
                    continue
                for name in DOCUMENTED_ORDER:
                    if name in marks:
                        continue
                    try:
                        v = R[name]().detect(probe)
                        if v is not NotImplemented and v:
                            marks.append(name)
                    except BaseException:
                        pass
            rec["text_markers"] = marks
            call = dict(p.get("call") or {})
            for key, idx in (("force", "force_idx"), ("lang", "lang_idx")):
                if idx in call:
                    langs = list(cs.get_languages())
                    call[key] = langs[call.pop(idx) % len(langs)]
            text = W[p["writer"]](**_ctor_kwargs(p["writer"], p.get("ctor"))).write(cs, **call)
            rec["text"] = text
        except Exception as e:
            rec["setup_exc"] = type(e).__name__ + ": " + safe_str(e, 200)
            out.append(rec)
            continue
        try:
            r = pycaption.detect_format(text)
            rec["detected"] = _reader_name(r, R)
        except BaseException as e:
            rec["detect_exc"] = type(e).__name__
            out.append(rec)
            continue
        if r is not None:
            try:
                back = r().read(text)
                rec["reread"] = canon.summary(back)
            except BaseException as e:
                rec["reread_exc"] = type(e).__name__ + ": " + safe_str(e, 200)
        out.append(rec)
    return {"results": out}


def run_job(job):
    k = job["kind"]
    if k == "history":
        return run_history(job)
    if k == "detect_batch":
        return run_detect_batch(job)
    if k == "pipeline_batch":
        return run_pipeline_batch(job)
    if k == "detect_faults":
        from . import c20
        return c20.child_detect_faults(job)
    if k == "ping":
        import pycaption
        return {"pycaption": os.path.abspath(pycaption.__file__), "hashseed": os.environ.get("PYTHONHASHSEED"),
                "pid": os.getpid()}
    raise HarnessBug("unknown job kind " + str(k))
