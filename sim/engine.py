"""One simulated run: execute the history in a child of the history zygote, evaluate the
reference (isolation oracle, DESIGN 2.5) in pristine children of other zygotes, judge."""
import copy
import difflib
import json

from . import canon
from .pool import HarnessError

PROP_OF = {"V1": "C09", "V2": "C09", "V3": "C09", "V6w": "C09",
           "V4": "C10", "V5": "C10", "V6": "C10", "V7": "C10"}


def via_kind(op):
    v = op.get("via", "fresh")
    k = "pool" if v.startswith("pool:") else "fresh"
    if op.get("conv"):
        k += "+conv"
    return k


def site_of(op):
    s = {"kind": op["kind"]}
    if op["kind"] in ("read", "write"):
        s["cls"] = op["cls"]
        s["via"] = via_kind(op)
    if op["kind"] == "edit":
        s["edit"] = op["edit"]
    return s


def norm_op(op, rename):
    """Recipe form of an op: fresh objects, no faults, canonical handle names."""
    o = {k: copy.deepcopy(v) for k, v in op.items() if k in ("kind", "cls", "ctor", "call", "doc", "recipe", "edit", "args")}
    o["via"] = "fresh"
    if op.get("conv"):
        o["conv"] = "c"
    if "out" in op:
        o["out"] = rename(op["out"])
    if "in" in op:
        o["in"] = rename(op["in"])
    if o["kind"] == "build" or o["kind"] == "edit":
        o.pop("via", None)
    return o


def short_diff(a, b, limit=14, labels=("history", "reference")):
    if a is None or b is None:
        return "%r vs %r" % (a if a is None else a[:80], b if b is None else b[:80])
    lines = list(difflib.unified_diff(a.splitlines(), b.splitlines(), labels[0], labels[1], lineterm="", n=1))
    return "\n".join(lines[:limit])[:1500]


class Stats:
    def __init__(self):
        self.c = {}

    def inc(self, k, n=1):
        self.c[k] = self.c.get(k, 0) + n

    def merge(self, other):
        for k, v in other.items():
            self.c[k] = self.c.get(k, 0) + v


class Evaluator:
    def __init__(self, zp, memo=None, stats=None):
        self.zp = zp
        self.memo = memo if memo is not None else {}
        self.stats = stats or Stats()
        self.distinct = None  # optional dict for interleaving tuples

    # ---------------------------------------------------------------- reference
    def ref(self, seed, recipe_ops, handle):
        """Outcome of the last op of `recipe_ops` executed with fresh objects in a pristine child
        (hash seed `seed`) that executes nothing else."""
        key = (seed, canon.digest(json.dumps(recipe_ops)))  # no sort_keys: key order of style dicts is part of the input
        hit = self.memo.get(key)
        if hit is not None:
            self.stats.inc("ref_memo_hits")
            return hit
        res = self.zp.submit(seed, {"kind": "history", "ops": recipe_ops, "faults_off": True})
        recs = res["records"]
        last = recs[-1]
        dump = None
        for r in recs:
            if handle in r["changed"]:
                dump = r["changed"][handle]
        out = {"status": last["status"], "exc": last.get("exc"), "mro": last.get("mro"), "msg": last.get("msg"),
               "text": last.get("text"), "dump": dump,
               "intermediate_ok": all(r["status"] in ("ok",) for r in recs[:-1])}
        self.memo[key] = out
        self.stats.inc("ref_evals")
        self.stats.inc("F1_restart_other_hashseed")
        return out

    # ------------------------------------------------------------------- faults
    def concretise_faults(self, plan):
        """Turn F2 fractions into concrete line-event ordinals using a fault-free dry run of the
        same history in a child of the same zygote."""
        ops = plan["ops"]
        todo = [i for i, op in enumerate(ops) if op.get("fault", {}).get("kind") == "F2" and "ordinal" not in op["fault"]]
        if not todo:
            return
        res = self.zp.submit(plan["hash_seeds"]["history"],
                             {"kind": "history", "ops": ops, "faults_off": True, "count_lines": True})
        self.stats.inc("dry_runs")
        for i in todo:
            L = res["records"][i].get("lines") or 0
            f = ops[i]["fault"]
            if L <= 0:
                del ops[i]["fault"]
                continue
            f["ordinal"] = 1 + int(f["frac"] * L)
            f["of"] = L

    # -------------------------------------------------------------------- judge
    def evaluate(self, plan):
        """Returns (verdict dict or None, info dict)."""
        prop = plan["property"]
        self.concretise_faults(plan)
        ops = plan["ops"]
        A = plan["hash_seeds"]["history"]
        refs = plan["hash_seeds"]["ref"]
        hist = self.zp.submit(A, {"kind": "history", "ops": ops})["records"]
        self.stats.inc("histories")
        self.stats.inc("steps", len(ops))
        # full event log digest of the history child: statuses, outputs, every dump, fault sites
        hist_digest = canon.digest(json.dumps(hist, sort_keys=True))
        cur = {}            # handle -> current dump in the history
        recipe = {}         # handle -> list of normalised ops
        poisoned = set()
        origin = {}         # handle -> "read" | "build"
        tainted = set()     # sets returned by a poisoned object: their recipe is not valid, nothing about them is judged
        prev_on_obj = {}    # slot -> (outcome, doc family)
        info = {"precondition_failed": None, "judged": 0, "hist_digest": hist_digest, "ref_digests": []}

        def verdict(cls, i, lhs, rhs, detail=""):
            op = ops[i]
            return {"class": cls, "property": PROP_OF[cls], "op": i, "site": site_of(op),
                    "lhs_digest": canon.digest(lhs or ""), "rhs_digest": canon.digest(rhs or ""),
                    "diff": short_diff(lhs, rhs, labels=("before", "after") if cls in ("V1", "V6", "V6w") else ("history", "reference")),
                    "detail": detail}

        def precondition(i, what):
            info["precondition_failed"] = {"op": i, "what": what}
            self.stats.inc("precondition_failed")
            return None, info

        for i, (op, rec) in enumerate(zip(ops, hist)):
            kind = op["kind"]
            st = rec["status"]
            self.stats.inc("op_" + kind)
            self.stats.inc("status_" + st)
            if st == "skipped":
                continue
            swallowed = False
            slot = op.get("via", "fresh")
            objs = [x for x in (slot if slot != "fresh" else None, ("conv:" + op["conv"]) if op.get("conv") else None) if x]
            if st == "injected":
                self.stats.inc("F2_injected_exception_fired")
                self.stats.inc("F2_in_" + kind)
                for x in objs:
                    poisoned.add(x)
            elif op.get("fault") and rec.get("fired_at"):
                # the injected exception was raised but something swallowed it and the call went on: what the call
                # returns is then a product of the fault, not of the history; judged like any interrupted call
                self.stats.inc("F2_fired_but_swallowed")
                for x in objs:
                    poisoned.add(x)
                swallowed = True
            if st == "raised":
                self.stats.inc("F3_natural_raise")
                self.stats.inc("F3_raise_" + op.get("cls", kind))
            if slot != "fresh" and kind in ("read", "write"):
                self.stats.inc("F4_shared_object_use")
            changed = dict(rec["changed"])
            # ---- invariants after every step: who may change
            target = op.get("out") if kind in ("read", "build") else op.get("in")
            for h in sorted(changed):
                before = cur.get(h)
                after = changed[h]
                if kind in ("read", "build"):
                    if h == target and before is None:
                        continue
                    if h in tainted:
                        self.stats.inc("unjudged_tainted_set")
                        continue
                    v = verdict("V6", i, before, after, "a %s changed existing set %s" % (kind, h))
                    if prop == "C09":
                        return precondition(i, "bystander changed by a read (C10 territory)")
                    return v, info
                if kind == "write":
                    cls = "V1" if h == target else "V6w"
                    v = verdict(cls, i, before, after, "write (%s) changed %s set %s" % (
                        st, "its input" if h == target else "another", h))
                    if prop == "C10":
                        return precondition(i, "set changed by a write (C09 territory)")
                    return v, info
                if kind == "edit":
                    if h == target:
                        continue
                    if h in tainted or target in tainted:
                        self.stats.inc("unjudged_tainted_set")
                        continue
                    if origin.get(h) == "build" and origin.get(target) == "build":
                        # the property speaks about sets returned by reads; aliasing between two API-built
                        # sets is recorded as a probe only
                        self.stats.inc("probe_build_build_aliasing")
                        continue
                    v = verdict("V6", i, before, after, "edit %s on %s changed other set %s" % (op["edit"], target, h))
                    if prop == "C09":
                        return precondition(i, "edit in a C09 history")
                    return v, info
            for h, d in changed.items():
                cur[h] = d
            # ---- recipes
            ren = lambda _h: "x"
            if kind == "read" and isinstance(op.get("doc"), dict) and "from_write" in op["doc"]:
                if "resolved_doc" not in rec:
                    continue
                op = dict(op)
                op["doc"] = {"inline": rec["resolved_doc"]}   # the reference reads the very same text
            if kind in ("read", "build") and st == "ok":
                recipe[op["out"]] = [norm_op(op, ren)]
                origin[op["out"]] = kind
            elif kind == "edit" and st in ("ok", "raised"):
                recipe[op["in"]] = recipe[op["in"]] + [norm_op(op, ren)]
            # ---- reference comparisons
            is_poisoned = any(x in poisoned for x in objs)
            if st == "injected":
                continue
            if swallowed:
                if kind == "read" and st == "ok":
                    tainted.add(op["out"])
                continue
            if is_poisoned:
                self.stats.inc("unjudged_poisoned_object")
                if kind == "read" and st == "ok":
                    tainted.add(op["out"])
                continue
            if kind in ("write", "edit") and op["in"] in tainted:
                self.stats.inc("unjudged_tainted_set")
                continue
            if kind == "build":
                continue
            if kind == "write" and prop != "C09":
                continue
            if kind == "edit" and origin.get(op["in"]) == "build":
                continue
            if kind == "read":
                rops = [norm_op(op, ren)]
                handle = "x"
                mine = {"status": st, "exc": rec.get("exc"), "mro": rec.get("mro"), "dump": cur.get(op["out"]) if st == "ok" else None}
            elif kind == "edit":
                rops = recipe[op["in"]] if st in ("ok", "raised") else recipe[op["in"]] + [norm_op(op, ren)]
                handle = "x"
                mine = {"status": st, "exc": rec.get("exc"), "mro": rec.get("mro"), "dump": cur.get(op["in"])}
            else:
                rops = recipe[op["in"]] + [norm_op(op, ren)]
                handle = "x"
                mine = {"status": st, "exc": rec.get("exc"), "mro": rec.get("mro"), "text": rec.get("text")}
            info["judged"] += 1
            self.stats.inc("judged_" + kind)
            key = (op.get("cls", kind), prev_on_obj.get(slot, ("none", "-")) if slot != "fresh" else ("fresh", "-"), st)
            if self.distinct is not None:
                self.distinct[json.dumps([key, A, refs])] = 1
            if slot != "fresh":
                if slot in prev_on_obj:
                    self.stats.inc("reuse_after_" + prev_on_obj[slot][0])
                prev_on_obj[slot] = (st, op.get("cls"))
            r = [self.ref(h, rops, handle) for h in refs]
            info["ref_digests"].append(canon.digest(json.dumps(r, sort_keys=True)))

            def same(a, b):
                if a["status"] != b["status"]:
                    return False
                if a.get("exc") != b.get("exc"):
                    # which exception a failing call raises is not promised; only unrelated classes (neither derives
                    # from the other) for the same operation count as a different outcome
                    if not (a.get("exc") in (b.get("mro") or []) or b.get("exc") in (a.get("mro") or [])):
                        return False
                if kind == "write":
                    return a.get("text") == b.get("text")
                return a.get("dump") == b.get("dump")

            def val(a):
                head = "%s %s\n" % (a["status"], a.get("exc") or "")
                return head + ((a.get("text") if kind == "write" else a.get("dump")) or "")

            if kind == "write" and not r[0].get("intermediate_ok", True):
                return precondition(i, "reference could not rebuild the input set")
            if not same(r[0], r[1]):
                cls = "V3" if kind == "write" else "V5"
                if prop == "C09" and kind != "write":
                    return precondition(i, "read differs between hash seeds (C10 territory)")
                v = verdict(cls, i, val(r[0]), val(r[1]),
                            "%s differs between pristine interpreters with PYTHONHASHSEED=%s and %s" % (kind, refs[0], refs[1]))
                v["seeds"] = refs
                return v, info
            if not same(mine, r[0]):
                # history-dependent or seed-dependent?  evaluate the reference under the history's own seed
                ra = self.ref(A, rops, handle)
                if same(mine, ra):
                    cls = "V3" if kind == "write" else "V5"
                    detail = "%s under PYTHONHASHSEED=%s differs from PYTHONHASHSEED=%s (pristine interpreters)" % (kind, A, refs[0])
                    lhs, rhs = val(ra), val(r[0])
                else:
                    cls = {"write": "V2", "read": "V4", "edit": "V7"}[kind]
                    detail = "%s in the history differs from the same %s in isolation" % (kind, kind)
                    lhs, rhs = val(mine), val(ra)
                if prop == "C09" and kind != "write":
                    return precondition(i, "read differs from isolated read (C10 territory)")
                v = verdict(cls, i, lhs, rhs, detail)
                return v, info
        return None, info


def same_failure(v1, v2):
    """Minimisation keeps a candidate only if the same verdict class fires at the same op site."""
    return v2 is not None and v1["class"] == v2["class"] and v1["site"] == v2["site"]
