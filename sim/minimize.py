"""Shrink a failing plan while the same verdict class fires at the same op site (DESIGN 2.7)."""
import copy
import time

from .engine import same_failure
from .ops import corpus


def _close(ops):
    """Drop ops whose input set is no longer created."""
    made = set()
    out = []
    for op in ops:
        if op["kind"] in ("write", "edit") and op["in"] not in made:
            continue
        if op["kind"] in ("read", "build"):
            made.add(op["out"])
        out.append(op)
    return out


def recipe_variants(rec):
    for li in range(len(rec["langs"])):
        if len(rec["langs"]) > 1:
            r = copy.deepcopy(rec)
            del r["langs"][li]
            yield r
    for li, l in enumerate(rec["langs"]):
        for ci in range(len(l["captions"])):
            if len(l["captions"]) > 1:
                r = copy.deepcopy(rec)
                del r["langs"][li]["captions"][ci]
                yield r
        for ci, c in enumerate(l["captions"]):
            for ni in range(len(c["nodes"])):
                if len(c["nodes"]) > 1:
                    r = copy.deepcopy(rec)
                    del r["langs"][li]["captions"][ci]["nodes"][ni]
                    yield r
            for ni, n in enumerate(c["nodes"]):
                if n.get("layout") is not None:
                    r = copy.deepcopy(rec)
                    r["langs"][li]["captions"][ci]["nodes"][ni]["layout"] = None
                    yield r
            if c.get("layout") is not None:
                r = copy.deepcopy(rec)
                r["langs"][li]["captions"][ci]["layout"] = None
                yield r
            if c.get("style", "default") != "default":
                r = copy.deepcopy(rec)
                r["langs"][li]["captions"][ci]["style"] = "default"
                yield r
        if l.get("layout") is not None:
            r = copy.deepcopy(rec)
            r["langs"][li]["layout"] = None
            yield r
    if rec.get("layout") is not None:
        r = copy.deepcopy(rec)
        r["layout"] = None
        yield r
    if rec.get("styles", "default") != "default":
        r = copy.deepcopy(rec)
        r["styles"] = "default"
        yield r



class Minimiser:
    def __init__(self, ev, plan, verdict, budget_s=60.0):
        self.ev = ev
        self.plan = copy.deepcopy(plan)
        self.v = verdict
        self.deadline = time.time() + budget_s
        self.tries = 0

    def attempt(self, ops):
        if time.time() > self.deadline or not ops:
            return None
        cand = copy.deepcopy(self.plan)
        cand["ops"] = copy.deepcopy(ops)
        self.tries += 1
        v, _ = self.ev.evaluate(cand)
        if same_failure(self.v, v):
            self.plan = cand
            self.v = v
            return cand["ops"]
        return None

    def run(self):
        ops = self.plan["ops"]
        # (0) cut everything after the failing op
        cut = self.attempt(ops[: self.v["op"] + 1])
        if cut is not None:
            ops = cut
        # (1) whole sessions
        for s in sorted({op.get("session", 0) for op in ops}):
            cand = _close([op for op in ops if op.get("session", 0) != s])
            if len(cand) < len(ops):
                got = self.attempt(cand)
                if got is not None:
                    ops = got
        # (2) ddmin over ops
        n = 2
        while len(ops) >= 2 and time.time() < self.deadline:
            chunk = max(1, len(ops) // n)
            reduced = False
            for start in range(0, len(ops), chunk):
                cand = _close(ops[:start] + ops[start + chunk:])
                if len(cand) == len(ops) or not cand:
                    continue
                got = self.attempt(cand)
                if got is not None:
                    ops = got
                    n = max(n - 1, 2)
                    reduced = True
                    break
            if not reduced:
                if chunk == 1:
                    break
                n = min(len(ops), n * 2)
        # (3) simpler objects, (4) fewer faults, simpler options
        for i in range(len(ops)):
            for key, repl in (("fault", None), ("conv", None), ("via", "fresh"), ("call", {}), ("ctor", {})):
                if key in ops[i] and ops[i][key] not in (repl, "fresh", {}):
                    cand = copy.deepcopy(ops)
                    if repl is None:
                        del cand[i][key]
                    else:
                        cand[i][key] = repl
                    got = self.attempt(cand)
                    if got is not None:
                        ops = got
        # (5) shrink documents line-wise
        for i in range(len(ops)):
            if ops[i]["kind"] != "read" or time.time() > self.deadline:
                continue
            doc = ops[i]["doc"]
            if isinstance(doc, dict) and "inline" not in doc:
                continue   # the output of an earlier write: shrinks only through the set that was written
            text = corpus()[doc[7:]]["text"] if isinstance(doc, str) else doc["inline"]
            lines = text.split("\n")
            n = 2
            while len(lines) >= 2 and time.time() < self.deadline:
                chunk = max(1, len(lines) // n)
                reduced = False
                for start in range(0, len(lines), chunk):
                    cl = lines[:start] + lines[start + chunk:]
                    cand = copy.deepcopy(ops)
                    new_doc = {"inline": "\n".join(cl)}
                    old = cand[i]["doc"]
                    for op in cand:  # the same document used by several ops shrinks together
                        if op.get("doc") == old:
                            op["doc"] = new_doc
                    got = self.attempt(cand)
                    if got is not None:
                        ops = got
                        lines = cl
                        n = max(n - 1, 2)
                        reduced = True
                        break
                if not reduced:
                    if chunk == 1:
                        break
                    n = min(len(lines), n * 2)
        # (6) shrink API-built sets: languages, captions, nodes, layouts, styles
        for i in range(len(ops)):
            if ops[i]["kind"] != "build":
                continue

            variants = recipe_variants

            progress = True
            while progress and time.time() < self.deadline:
                progress = False
                for r in variants(ops[i]["recipe"]):
                    if time.time() > self.deadline:
                        break
                    cand = copy.deepcopy(ops)
                    cand[i]["recipe"] = r
                    got = self.attempt(cand)
                    if got is not None:
                        ops = got
                        progress = True
                        break
        self.plan["ops"] = ops
        return self.plan, self.v
