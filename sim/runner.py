"""Worker-side code: run batches of simulated histories, minimise and package violations."""
import copy
import json
import os
import subprocess
import sys
import time
import traceback

from . import canon, gen
from .engine import Evaluator, Stats
from .minimize import Minimiser
from .pool import HarnessError, VERIF, PYTHON, repo_path

ZP = None          # ZygotePool, set by the orchestrator before the worker pool forks
REPLAY_DIR = os.path.join(VERIF, "replays")


def tree_id(repo):
    try:
        head = subprocess.run(["git", "-C", repo, "rev-parse", "HEAD"], capture_output=True, text=True, timeout=20).stdout.strip()
        diff = subprocess.run(["git", "-C", repo, "diff", "HEAD", "--", "pycaption"], capture_output=True, timeout=20).stdout
        return {"repo": repo, "git_head": head, "dirty_digest": canon.digest(diff) if diff else None}
    except Exception as e:
        return {"repo": repo, "git_head": None, "dirty_digest": None, "note": str(e)}


def compact_plan(plan, maxdoc=400):
    """A history written out for the evidence file (documents abbreviated)."""
    p = {"run_seed": plan["run_seed"], "hash_seeds": plan["hash_seeds"], "schedule": plan.get("schedule"), "ops": []}
    for op in plan["ops"]:
        o = {k: v for k, v in op.items() if k not in ("recipe", "doc")}
        if "doc" in op:
            d = op["doc"]
            o["doc"] = d if (isinstance(d, str) or "inline" not in d) else {"inline": d["inline"][:maxdoc] + ("…" if len(d["inline"]) > maxdoc else "")}
        if "recipe" in op:
            o["recipe"] = {"langs": [l["lang"] for l in op["recipe"]["langs"]],
                           "captions": [len(l["captions"]) for l in op["recipe"]["langs"]],
                           "styles": op["recipe"].get("styles") if op["recipe"].get("styles") == "default" else "dict"}
        p["ops"].append(o)
    return p


def write_replay(plan, verdict, prop):
    os.makedirs(REPLAY_DIR, exist_ok=True)
    body = {"property": prop, "verdict": verdict["class"], "run_seed": plan["run_seed"],
            "hash_seeds": plan["hash_seeds"], "ops": plan["ops"],
            "faults": [{"op": i, "ordinal": op["fault"].get("ordinal"), "of": op["fault"].get("of")}
                       for i, op in enumerate(plan["ops"]) if op.get("fault")],
            "signature": {"class": verdict["class"], "site": verdict["site"], "op": verdict["op"],
                          "lhs_digest": verdict["lhs_digest"], "rhs_digest": verdict["rhs_digest"]},
            "diff": verdict["diff"], "detail": verdict["detail"], "tree": tree_id(ZP.repo if ZP else repo_path())}
    text = json.dumps(body, indent=1)  # never sort keys: the order of style-dict keys is part of the history
    name = "%s-%s-%s-%s.json" % (prop, verdict["class"], plan["run_seed"], canon.digest(json.dumps(body["ops"]))[:8])
    path = os.path.join(REPLAY_DIR, name)
    with open(path, "w") as f:
        f.write(text)
    return path


def confirm_replay(path):
    """Replays the file in a fresh process: must exit 1 and print the VIOLATION line."""
    env = dict(os.environ)
    env["PYTHONPATH"] = VERIF
    p = subprocess.run([PYTHON, "-c", "from sim import replay; replay.main()", path], env=env, cwd=VERIF,
                       capture_output=True, text=True, timeout=300)
    return p.returncode == 1 and "VIOLATION property=" in p.stdout, p.stdout[-800:] + p.stderr[-800:]


def run_batch(args):
    """args: dict(prop, tier, run_seeds, faults, minimise_s).  Returns a plain dict."""
    import faulthandler
    faulthandler.dump_traceback_later(1500, exit=True)
    prop, tier = args["prop"], args["tier"]
    ev = Evaluator(ZP, memo={}, stats=Stats())
    ev.distinct = {}
    out = {"runs": [], "violations": [], "errors": [], "samples": [], "schedules": []}
    for run_seed in args["run_seeds"]:
        if time.time() > args.get("deadline", 1e18):
            out["cut_by_deadline"] = True
            break
        if len(ev.memo) > 4000:
            ev.memo.clear()
        t0 = time.time()
        try:
            plan = gen.gen_plan(run_seed, prop, tier, faults=args["faults"])
            try:
                v, info = ev.evaluate(plan)
            except HarnessError:
                # one retry: a child killed by an overloaded machine's timeout is not a property of the tree
                ev.stats.inc("harness_retries")
                plan = gen.gen_plan(run_seed, prop, tier, faults=args["faults"])
                v, info = ev.evaluate(plan)
        except HarnessError as e:
            out["errors"].append({"run_seed": run_seed, "error": str(e)[:1500]})
            continue
        except Exception as e:
            out["errors"].append({"run_seed": run_seed, "error": "harness exception: " + traceback.format_exc()[-1500:]})
            continue
        out["runs"].append({"run_seed": run_seed, "ops": len(plan["ops"]), "judged": info["judged"],
                            "precondition_failed": info["precondition_failed"], "verdict": v["class"] if v else None,
                            "hist_digest": info.get("hist_digest"), "ref_digest": canon.digest("".join(info.get("ref_digests", []))),
                            "fired_at": [op["fault"].get("ordinal") for op in plan["ops"] if op.get("fault")],
                            "wall": round(time.time() - t0, 3)})
        out["schedules"].append(canon.digest(json.dumps([[o["kind"], o.get("cls"), o.get("via"), o.get("session"),
                                                          bool(o.get("fault"))] for o in plan["ops"]])))
        if len(out["samples"]) < 1:
            out["samples"].append(compact_plan(plan))
        if v is not None:
            try:
                mplan, mv = Minimiser(ev, plan, v, budget_s=args.get("minimise_s", 60)).run()
                path = write_replay(mplan, mv, mv["property"])
                ok, log = confirm_replay(path)
                if not ok:
                    # the minimised history does not reproduce in a fresh process: fall back to the history as found
                    ev.stats.inc("minimised_replay_not_reproducing")
                    path2 = write_replay(plan, v, v["property"])
                    ok2, log2 = confirm_replay(path2)
                    if ok2:
                        try:
                            os.remove(path)
                        except OSError:
                            pass
                        mplan, mv, path, ok, log = plan, v, path2, ok2, log2
                rec = {"run_seed": run_seed, "verdict": mv, "replay": path, "confirmed": ok, "ops": len(mplan["ops"]),
                       "orig_ops": len(plan["ops"]), "compact": compact_plan(mplan, 2000)}
                if not ok:
                    rec["replay_log"] = log
                out["violations"].append(rec)
            except HarnessError as e:
                out["errors"].append({"run_seed": run_seed, "error": "while minimising: " + str(e)[:1500]})
    out["stats"] = ev.stats.c
    out["distinct"] = sorted(ev.distinct)
    return out


def choose_ordinals(sites, total, mode, cap, rng):
    """sites: [[site, first, last, hits], ...].  mode 'sites': the first and the last dynamic occurrence
    of every distinct source line; mode 'all': every line event."""
    if mode == "all":
        ords = list(range(1, total + 1))
        if cap and len(ords) > cap:
            ords = sorted(rng.sample(ords, cap))
        return ords
    firsts = sorted({first for _site, first, _last, _hits in sites})
    lasts = sorted({last for _site, _first, last, _hits in sites} - set(firsts))
    if cap and len(firsts) >= cap:
        return sorted(rng.sample(firsts, cap))
    if cap and len(firsts) + len(lasts) > cap:
        lasts = rng.sample(lasts, cap - len(firsts))   # every source line is a crash point at least once
    return sorted(firsts + lasts)


def run_sweep(args):
    """One crash-site sweep: the same short history, its target op cut at many line events."""
    import faulthandler
    import random
    faulthandler.dump_traceback_later(2400, exit=True)
    prop, tier = args["prop"], args["tier"]
    ev = Evaluator(ZP, memo={}, stats=Stats())
    ev.distinct = {}
    out = {"runs": [], "violations": [], "errors": [], "samples": [], "schedules": [], "sweep": None}
    run_seed = args["run_seed"]
    try:
        for attempt in range(8):
            # a base whose sets could not be created (a document that raises) gives the target nothing to do: redraw
            base = gen.gen_sweep_base(run_seed + attempt * 7919, prop, tier, target_cls=args.get("target_cls"))
            t = base["sweep"]["target"]
            dry = ZP.submit(base["hash_seeds"]["history"], {"kind": "history", "ops": base["ops"], "faults_off": True,
                                                           "count_lines": True, "record_sites": True})["records"]
            total = dry[t].get("lines") or 0
            sites = dry[t].get("sites") or []
            if total > 20 and all(r["status"] == "ok" for r in dry[:t]):
                break
        base["run_seed"] = run_seed
        base["sweep"]["attempt"] = attempt
        rng = random.Random(run_seed ^ 0x5EED)
        ords = choose_ordinals(sites, total, args.get("mode", "sites"), args.get("cap", 0), rng)
        all_points = len(ords)
        nchunks = args.get("nchunks", 1)
        if nchunks > 1:
            ords = ords[args.get("chunk", 0)::nchunks]     # this job's share of the crash points (same base, same dry run)
        out["sweep"] = {"run_seed": run_seed, "target": {k: v for k, v in base["ops"][t].items() if k not in ("doc", "recipe")},
                        "line_events": total, "distinct_sites": len(sites), "points": len(ords), "mode": args.get("mode", "sites"),
                        "dry_status": dry[t]["status"], "chunk": [args.get("chunk", 0), nchunks], "all_points": all_points}
        fired_sites = {}
        for n in ords:
            if time.time() > args.get("deadline", 1e18):
                out["cut_by_deadline"] = True
                out["sweep"]["points"] = len(out["runs"])
                break
            plan = copy.deepcopy(base)
            plan["ops"][t]["fault"] = {"kind": "F2", "ordinal": n, "of": total}
            plan["sweep"]["ordinal"] = n
            t0 = time.time()
            try:
                v, info = ev.evaluate(plan)
            except HarnessError:
                ev.stats.inc("harness_retries")
                v, info = ev.evaluate(plan)
            out["runs"].append({"run_seed": run_seed, "sweep_ordinal": n, "ops": len(plan["ops"]), "judged": info["judged"],
                                "precondition_failed": info["precondition_failed"], "verdict": v["class"] if v else None,
                                "hist_digest": info.get("hist_digest"),
                                "ref_digest": canon.digest("".join(info.get("ref_digests", []))), "fired_at": [n]})
            if v is not None:
                mplan, mv = Minimiser(ev, plan, v, budget_s=args.get("minimise_s", 45)).run()
                path = write_replay(mplan, mv, mv["property"])
                ok, log = confirm_replay(path)
                rec = {"run_seed": run_seed, "verdict": mv, "replay": path, "confirmed": ok, "ops": len(mplan["ops"]),
                       "orig_ops": len(plan["ops"]), "compact": compact_plan(mplan, 2000)}
                if not ok:
                    rec["replay_log"] = log
                out["violations"].append(rec)
                break   # one violation per sweep is enough; the rest of the sweep would repeat it
        if not out["samples"]:
            p = copy.deepcopy(base)
            p["ops"][t]["fault"] = {"kind": "F2", "ordinal": "<each of %d points>" % len(ords)}
            out["samples"].append(compact_plan(p))
    except HarnessError as e:
        out["errors"].append({"run_seed": run_seed, "error": str(e)[:1500]})
    except Exception:
        out["errors"].append({"run_seed": run_seed, "error": "harness exception: " + traceback.format_exc()[-1500:]})
    out["stats"] = ev.stats.c
    out["distinct"] = sorted(ev.distinct)
    return out


def run_siblings(args):
    """C10: a document and each of its head-level siblings read one after the other (both orders) by fresh readers:
    whatever a reader keeps across documents keyed on less than the whole document shows here."""
    import faulthandler
    import random
    from . import docs
    faulthandler.dump_traceback_later(2400, exit=True)
    prop, tier = args["prop"], args["tier"]
    ev = Evaluator(ZP, memo={}, stats=Stats())
    ev.distinct = {}
    out = {"runs": [], "violations": [], "errors": [], "samples": [], "schedules": [], "siblings": 0}
    rng = random.Random(args["run_seed"])
    hp = gen.HASH_POOL_QUICK if tier == "quick" else gen.HASH_POOL_THOROUGH
    fmt = args["fmt"]
    base = args.get("doc")
    if base is None:
        base = docs.gen_dfxp(rng, nlangs=1, referential=bool(args.get("referential"))) if fmt == "dfxp" else docs.gen_sami(rng)
    cls = docs.READER_OF[fmt]
    if fmt == "sami" and "color:" not in base.lower():
        base = base.replace("-->", ".Tint {color: white;}\n-->", 1)
    sibs = docs.head_siblings(base, limit=args.get("limit", 40))
    for k, sib in enumerate(sibs):
        for order in (0, 1, 2):
            if time.time() > args.get("deadline", 1e18):
                out["cut_by_deadline"] = True
                break
            if order == 2:
                if k + 1 >= len(sibs):
                    continue
                first, second = sib, sibs[k + 1]       # two siblings in a row (both damaged, differently)
            else:
                first, second = (base, sib) if order == 0 else (sib, base)
            hs = rng.sample(hp, 3)
            plan = {"property": prop, "run_seed": args["run_seed"], "hash_seeds": {"history": hs[0], "ref": hs[1:]},
                    "ops": [{"kind": "read", "cls": cls, "ctor": {}, "call": {}, "via": "fresh", "doc": {"inline": first}, "out": "s0", "session": 0},
                            {"kind": "read", "cls": cls, "ctor": {}, "call": {}, "via": "fresh", "doc": {"inline": second}, "out": "s1", "session": 0}]}
            try:
                v, info = ev.evaluate(plan)
            except HarnessError as e:
                out["errors"].append({"run_seed": args["run_seed"], "error": str(e)[:1500]})
                continue
            out["siblings"] += 1
            out["runs"].append({"run_seed": args["run_seed"], "sweep_ordinal": "sib%d.%d" % (k, order), "ops": 2, "judged": info["judged"],
                                "precondition_failed": info["precondition_failed"], "verdict": v["class"] if v else None,
                                "hist_digest": info.get("hist_digest"), "ref_digest": canon.digest("".join(info.get("ref_digests", []))), "fired_at": []})
            if v is not None:
                mplan, mv = Minimiser(ev, plan, v, budget_s=30).run()
                path = write_replay(mplan, mv, mv["property"])
                ok, log = confirm_replay(path)
                rec = {"run_seed": args["run_seed"], "verdict": mv, "replay": path, "confirmed": ok, "ops": len(mplan["ops"]), "orig_ops": 2,
                       "compact": compact_plan(mplan, 2000)}
                if not ok:
                    rec["replay_log"] = log
                out["violations"].append(rec)
                out["stats"] = ev.stats.c
                out["distinct"] = sorted(ev.distinct)
                return out
    out["stats"] = ev.stats.c
    out["distinct"] = sorted(ev.distinct)
    return out
