"""Orchestrator.  python -c 'from sim import check; check.main()' --property C09 --tier quick
exit 0: property held on everything explored; exit 1: VIOLATION line(s); exit 2: HARNESS-ERROR."""
import argparse
import concurrent.futures as cf
import json
import multiprocessing
import os
import random
import sys
import time

from . import gen, runner, canon
from .engine import Stats
from .pool import ZygotePool, HarnessError, VERIF, repo_path

DEFAULT_SEED = 20261003

BUDGET = {  # histories, soft wall-clock budget (s), batch size
    ("C09", "quick"): (640, 75, 8),
    ("C10", "quick"): (640, 75, 8),
    ("C09", "thorough"): (16000, 1500, 10),
    ("C10", "thorough"): (16000, 1500, 10),
}

REAL_VS_STUB = {
    "real": ["pycaption (all modules, imported from the working tree)", "BeautifulSoup/lxml/cssutils/soupsieve/html.parser",
             "copy.deepcopy", "CPython interpreter per PYTHONHASHSEED (zygote + fork)"],
    "stub": ["client sessions (scripted from the run seed)", "scheduler (PRNG-driven interleaving and object sharing)",
             "blob store with storage faults (C20 only)"],
    "absent_in_sut": ["clock/timers", "network", "threads", "file I/O"],
}


def load_known():
    p = os.path.join(VERIF, "known_findings.json")
    if not os.path.exists(p):
        return []
    with open(p) as f:
        return json.load(f).get("findings", [])


def match_known(finding, prop, verdict):
    if finding.get("status") != "open" or finding.get("property") != prop:
        return False
    m = finding.get("match", {})
    site = verdict.get("site", {})
    for k, v in m.items():
        if k == "verdict":
            if verdict.get("class") != v:
                return False
        elif site.get(k) != v:
            return False
    return True


def main(argv=None):
    ap = argparse.ArgumentParser()
    ap.add_argument("--property", required=True)
    ap.add_argument("--tier", default=os.environ.get("VERIF_TIER") or "quick")
    ap.add_argument("--workers", type=int, default=int(os.environ.get("VERIF_WORKERS", "0")) or min(16, os.cpu_count() or 4))
    ap.add_argument("--histories", type=int, default=0)
    ap.add_argument("--budget", type=float, default=0)
    ap.add_argument("--evidence", default=None)
    ap.add_argument("--eventlog", default=None, help="write the per-run event log (determinism self-test)")
    a = ap.parse_args(argv)
    prop, tier = a.property, a.tier
    if tier not in ("quick", "thorough"):
        tier = "quick"
    seed = int(os.environ.get("VERIF_SEED") or DEFAULT_SEED)
    print("VERIF_SEED=%d property=%s tier=%s repo=%s" % (seed, prop, tier, repo_path()))
    sys.stdout.flush()
    if prop == "C20":
        from . import c20
        return c20.main(seed, tier, a)
    t0 = time.time()
    n_hist, budget, batch = BUDGET[(prop, tier)]
    if a.histories:
        n_hist = a.histories
    if a.budget:
        budget = a.budget
    evidence_path = a.evidence or os.path.join(VERIF, "evidence", prop + ".json")
    try:
        rc = _run(prop, tier, seed, n_hist, budget, batch, a.workers, evidence_path, t0, a.eventlog)
    except HarnessError as e:
        print("HARNESS-ERROR %s" % str(e)[:2000])
        rc = 2
    except Exception:
        import traceback
        print("HARNESS-ERROR unexpected exception in the harness itself:\n%s" % traceback.format_exc()[-2000:])
        rc = 2
    sys.stdout.flush()
    sys.exit(rc)


def _run(prop, tier, seed, n_hist, budget, batch, workers, evidence_path, t0, eventlog):
    hp = gen.HASH_POOL_QUICK if tier == "quick" else gen.HASH_POOL_THOROUGH
    zp = ZygotePool(hp)
    runner.ZP = zp
    master = random.Random(seed)
    run_seeds = [master.randrange(1 << 48) for _ in range(n_hist)]
    # fault-free and fault-injecting configurations are separate batches (DESIGN 2.6)
    jobs = []
    for k in range(0, n_hist, batch):
        jobs.append({"prop": prop, "tier": tier, "run_seeds": run_seeds[k:k + batch], "faults": (k // batch) % 3 != 0,
                     "minimise_s": 45 if tier == "quick" else 120})
    # crash-site sweeps: one target class each, the target op cut at the first and last occurrence of
    # every distinct source line (thorough: also every single line event of some targets)
    from .gen import WRITERS
    readers = ["DFXPReader", "SAMIReader", "SRTReader", "WebVTTReader", "MicroDVDReader", "SCCReader"]
    primary, secondary = (WRITERS, readers) if prop == "C09" else (readers, WRITERS)
    sweep_jobs = []
    if tier == "quick":
        targets = [(c, "sites", 400) for c in primary] + [(c, "sites", 150) for c in secondary[:2]]
    else:
        targets = [(c, "sites", 0) for c in primary for _ in range(12)] + [(c, "sites", 0) for c in secondary for _ in range(3)] \
            + [(c, "all", 6000) for c in primary for _ in range(2)]
    sweep_master = random.Random(seed ^ 0x5EEDF00D)   # its own stream: sweep seeds do not depend on the number of histories
    for (c, mode, cap) in targets:
        sseed = sweep_master.randrange(1 << 48)
        nchunks = 4 if (cap == 0 or cap >= 300) else 1    # big sweeps are shared by several workers
        for ch in range(nchunks):
            sweep_jobs.append({"prop": prop, "tier": tier, "run_seed": sseed, "target_cls": c, "mode": mode, "cap": cap,
                               "chunk": ch, "nchunks": nchunks, "minimise_s": 45 if tier == "quick" else 120})
    # C10: sibling sweeps - a document and each of its head-level siblings, both orders, fresh readers
    sibling_jobs = []
    if prop == "C10":
        from .ops import corpus
        sib_master = random.Random(seed ^ 0x51B51B)
        C = corpus()
        cnames = {f: sorted(k for k, v in C.items() if v["fmt"] == f and 300 < len(v["text"]) < 4000) for f in ("dfxp", "sami")}
        n_gen, n_corpus = (3, 2) if tier == "quick" else (40, 20)
        for f in ("dfxp", "sami"):
            for _ in range(n_gen):
                sibling_jobs.append({"prop": prop, "tier": tier, "run_seed": sib_master.randrange(1 << 48), "fmt": f, "limit": 40})
            if f == "dfxp":
                # bases whose region surely takes its geometry from a referenced style: siblings then differ in <styling> only
                for _ in range(2 if tier == "quick" else 12):
                    sibling_jobs.append({"prop": prop, "tier": tier, "run_seed": sib_master.randrange(1 << 48), "fmt": f, "limit": 40,
                                         "referential": True})
            for name in sib_master.sample(cnames[f], min(n_corpus, len(cnames[f]))):
                sibling_jobs.append({"prop": prop, "tier": tier, "run_seed": sib_master.randrange(1 << 48), "fmt": f, "limit": 40,
                                     "doc": C[name]["text"]})
    if os.environ.get("VERIF_NO_SWEEPS"):
        sweep_jobs = []
        sibling_jobs = []
    # every job stops taking new work at the soft deadline (a slow or busy machine explores less, it does not run longer)
    hard = t0 + budget * (2.5 if tier == "quick" else 1.15)
    for j in jobs:
        j["deadline"] = hard
    for j in sweep_jobs:
        j["deadline"] = hard
    for j in sibling_jobs:
        j["deadline"] = hard
    stats = Stats()
    sweeps = []
    runs, violations, errors, samples, schedules, distinct = [], [], [], [], {}, {}
    deadline = t0 + budget
    ctx = multiprocessing.get_context("fork")
    ex = cf.ProcessPoolExecutor(max_workers=workers, mp_context=ctx)
    stopped_early = False
    try:
        futs = [ex.submit(runner.run_sweep, j) for j in sweep_jobs] + [ex.submit(runner.run_siblings, j) for j in sibling_jobs] + \
            [ex.submit(runner.run_batch, j) for j in jobs]
        pending = set(futs)
        while pending:
            done, pending = cf.wait(pending, timeout=1.0, return_when=cf.FIRST_COMPLETED)
            for f in done:
                try:
                    r = f.result()
                except Exception as e:
                    raise HarnessError("worker died: %s: %s" % (type(e).__name__, e))
                runs += r["runs"]
                violations += r["violations"]
                errors += r["errors"]
                if r.get("sweep"):
                    sweeps.append(r["sweep"])
                    if sum(1 for x in samples if "sweep_of" in x) < 1:
                        for x in r["samples"]:
                            x["sweep_of"] = r["sweep"]
                            samples.insert(0, x)
                elif len(samples) < 3:
                    samples += r["samples"]
                for s in r["schedules"]:
                    schedules[s] = 1
                for d in r["distinct"]:
                    distinct[d] = 1
                stats.merge(r["stats"])
                if r.get("cut_by_deadline"):
                    stopped_early = True
            sites = {(v["verdict"]["class"], json.dumps(v["verdict"]["site"], sort_keys=True)) for v in violations}
            if pending and (time.time() > deadline or len(sites) >= 4 or len(errors) > 20):
                stopped_early = True
                for f in pending:
                    f.cancel()
                # running batches finish their current work; do not wait for not-yet-started ones
                still = [f for f in pending if not f.cancelled()]
                for f in still:
                    try:
                        r = f.result(timeout=600)
                        runs += r["runs"]
                        violations += r["violations"]
                        errors += r["errors"]
                        if r.get("sweep"):
                            sweeps.append(r["sweep"])
                        stats.merge(r["stats"])
                        for s in r["schedules"]:
                            schedules[s] = 1
                        for d in r["distinct"]:
                            distinct[d] = 1
                    except cf.CancelledError:
                        pass
                    except Exception as e:
                        raise HarnessError("worker died: %s: %s" % (type(e).__name__, e))
                pending = set()
    finally:
        ex.shutdown(wait=False, cancel_futures=True)
        zp.close()
    runs.sort(key=lambda r: (r["run_seed"], str(r.get("sweep_ordinal", 0))))
    sweeps.sort(key=lambda x: x["run_seed"])
    violations.sort(key=lambda v: (v["run_seed"]))
    wall = time.time() - t0
    # ---- classify violations: known findings vs new
    known = load_known()
    lines = []
    new_violations = 0
    seen_sites = {}
    unconfirmed = []
    for v in violations:
        key = (v["verdict"]["class"], json.dumps(v["verdict"]["site"], sort_keys=True))
        if key in seen_sites:
            try:
                os.remove(v["replay"])   # same verdict class at the same op site: one replay file is enough
            except OSError:
                pass
            continue
        seen_sites[key] = 1
        if not v["confirmed"]:
            unconfirmed.append(v)
            continue
        k = next((f for f in known if match_known(f, v["verdict"]["property"], v["verdict"])), None)
        if k is not None:
            lines.append("KNOWN-FINDING: property=%s %s (replay=%s)" % (v["verdict"]["property"], k["what"], v["replay"]))
        else:
            new_violations += 1
            lines.append("VIOLATION property=%s replay=%s" % (v["verdict"]["property"], v["replay"]))
            lines.append("  %s at op %d of %d (minimised from %d) site=%s: %s" % (
                v["verdict"]["class"], v["verdict"]["op"], v["ops"], v["orig_ops"], json.dumps(v["verdict"]["site"]), v["verdict"]["detail"]))
            lines.append("  " + v["verdict"]["diff"].replace("\n", "\n  "))
    # ---- evidence
    c = stats.c
    fault_counts = {k: c.get(k, 0) for k in ("F1_restart_other_hashseed", "F2_injected_exception_fired", "F3_natural_raise",
                                              "F4_shared_object_use")}
    nontrivial = len(distinct)
    ev = {
        "property_id": prop, "tier": tier, "seed": seed, "level": "exploration",
        "coverage": {
            "evaluations": len(runs),
            "distinct_nontrivial": nontrivial,
            "rule": "one evaluation = one simulated history (1-4 client sessions interleaved by the seeded scheduler over shared/fresh "
                    "reader and writer objects, executed in a child of the history zygote, every judged op re-evaluated in pristine "
                    "children of two other PYTHONHASHSEED zygotes). distinct_nontrivial counts distinct judged-op contexts: "
                    "(class, previous outcome on the same shared object or 'fresh', this outcome, history hash seed, reference hash seeds); "
                    "a history with zero judged ops contributes nothing to it.",
            "samples": samples[:3],
            "exhaustive": False,
            "histories": len(runs), "steps": c.get("steps", 0),
            "random_histories": sum(1 for r in runs if "sweep_ordinal" not in r),
            "sibling_document_pairs": sum(1 for r in runs if str(r.get("sweep_ordinal", "")).startswith("sib")),
            "crash_site_sweeps": {"sweeps": len({x["run_seed"] for x in sweeps}), "crash_points": sum(x["points"] for x in sweeps),
                                  "distinct_source_lines": sum(x["distinct_sites"] for x in sweeps if x.get("chunk", [0])[0] == 0),
                                  "per_target": [[x["target"].get("cls"), x["mode"], x.get("all_points", x["points"]), x["line_events"]]
                                                 for x in sweeps if x.get("chunk", [0])[0] == 0]},
            "judged_ops": {k[7:]: v for k, v in sorted(c.items()) if k.startswith("judged_")},
            "reference_evaluations": c.get("ref_evals", 0), "reference_memo_hits": c.get("ref_memo_hits", 0),
            "distinct_schedules": len(schedules),
            "faults_fired": fault_counts,
            "fault_detail": {k: v for k, v in sorted(c.items()) if k.startswith(("F2_", "F3_", "reuse_after_", "status_", "op_", "unjudged_", "probe_", "minimised_", "dry_runs"))},
            "precondition_failed": c.get("precondition_failed", 0),
            "runs_per_hour": round(len(runs) / max(wall, 1e-6) * 3600),
            "seeds": {"master": seed, "first_run_seeds": sorted({r["run_seed"] for r in runs})[:5], "count": len(runs)},
            "simulated_time": "none: the SUT reads no clock; logical steps = %d" % c.get("steps", 0),
            "hash_seed_pool": hp, "workers": workers, "stopped_early": stopped_early,
            "real_vs_stub": REAL_VS_STUB, "harness_errors": len(errors), "harness_retries": c.get("harness_retries", 0),
        },
        "assumptions": ["CPython fork semantics: a forked child of a zygote that executed no pycaption operation is a pristine interpreter",
                        "sys.settrace line events are a faithful set of crash points for pure-Python code",
                        "the reference is pycaption itself in isolation: format-level correctness is not judged, only independence from history, object reuse and hash seed",
                        "sim/canon.py dumps every attribute of the public caption-set model"],
        "wall_s": round(wall, 2), "violations": new_violations,
    }
    os.makedirs(os.path.dirname(evidence_path), exist_ok=True)
    with open(evidence_path, "w") as f:
        json.dump(ev, f, indent=1, sort_keys=True)
    if eventlog:
        with open(eventlog, "w") as f:
            json.dump({"runs": [{k: v for k, v in r.items() if k != "wall"} for r in runs],
                       "violations": [[v["run_seed"], v["verdict"]["class"], v["verdict"]["site"], v["verdict"]["lhs_digest"]] for v in violations]},
                      f, indent=0, sort_keys=True)
    print("histories=%d judged=%s ref_evals=%d faults=%s precondition_failed=%d wall=%.1fs" % (
        len(runs), ev["coverage"]["judged_ops"], c.get("ref_evals", 0), fault_counts, c.get("precondition_failed", 0), wall))
    for l in lines:
        print(l)
    if errors or unconfirmed:
        for e in errors[:3]:
            print("HARNESS-ERROR run_seed=%s %s" % (e["run_seed"], e["error"][:1500]))
        for v in unconfirmed[:3]:
            print("HARNESS-ERROR replay %s did not reproduce in a fresh process: %s" % (v["replay"], v.get("replay_log", "")[:800]))
        return 1 if new_violations else 2
    if len(runs) < max(10, n_hist // 20) and not new_violations and not lines:
        print("HARNESS-ERROR only %d histories completed within the budget" % len(runs))
        return 2
    return 1 if new_violations else 0


if __name__ == "__main__":
    main()
