"""Replay a recorded history:  python -c 'from sim import replay; replay.main()' <file>
Exit 1 + VIOLATION line iff the recorded signature reproduces; exit 0 if the run is clean;
exit 3 if a *different* violation shows."""
import json
import sys


def main(argv=None):
    argv = argv if argv is not None else sys.argv[1:]
    path = argv[0]
    with open(path) as f:
        body = json.load(f)
    if body.get("kind") == "c20":
        from . import c20
        return c20.replay(body, path)
    from .pool import ZygotePool
    from .engine import Evaluator
    seeds = sorted({body["hash_seeds"]["history"], *body["hash_seeds"]["ref"]})
    zp = ZygotePool(seeds)
    try:
        ev = Evaluator(zp)
        plan = {"property": body["property"], "run_seed": body["run_seed"], "hash_seeds": body["hash_seeds"], "ops": body["ops"]}
        v, info = ev.evaluate(plan)
    finally:
        zp.close()
    sig = body["signature"]
    if v is None:
        print("replay: no violation (precondition_failed=%s)" % (info["precondition_failed"],))
        sys.exit(0)
    print("replay: %s at op %d %s\n%s\n%s" % (v["class"], v["op"], json.dumps(v["site"]), v["detail"], v["diff"]))
    if v["class"] == sig["class"] and v["site"] == sig["site"] and v["lhs_digest"] == sig["lhs_digest"] \
            and v["rhs_digest"] == sig["rhs_digest"]:
        print("VIOLATION property=%s replay=%s" % (v["property"], path))
        sys.exit(1)
    print("replay: a different violation than recorded (%s)" % json.dumps(sig))
    sys.exit(3)


if __name__ == "__main__":
    main()
