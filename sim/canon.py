"""Canonical text dump of the *public* caption-set model (DESIGN 2.5).

Only attributes a user can observe through the documented model are dumped, so
that private caches added by a refactor cannot alarm.  Everything is compared
as text: no __eq__ of the library is involved.
"""
import hashlib
import json


def digest(text):
    if not isinstance(text, (bytes, bytearray)):
        text = text.encode("utf-8", "surrogatepass")
    return hashlib.sha1(text).hexdigest()[:16]


def _opaque(v, depth=0):
    """An object the model does not know.  Its default repr would contain a memory address, which says nothing
    about the value: use the class name and its public attributes instead; a class with its own __repr__ is trusted."""
    if type(v).__repr__ is not object.__repr__:
        return type(v).__name__ + ":" + repr(v)
    if type(v).__str__ is not object.__str__:
        try:
            return {"class": type(v).__name__, "str": str(v)}
        except Exception:
            pass
    try:
        attrs = vars(v)
    except TypeError:
        attrs = {k: getattr(v, k, None) for k in getattr(type(v), "__slots__", ())}
    return {"class": type(v).__name__,
            "attrs": sorted([str(k), _plain(x, depth + 1)] for k, x in attrs.items() if not str(k).startswith("_"))}


def _enum(v):
    # Enum members -> their name; anything else -> repr
    name = getattr(v, "name", None)
    if name is not None and hasattr(v, "value"):
        return f"{type(v).__name__}.{name}"
    return None if v is None else repr(v)


def _size(s):
    if s is None:
        return None
    if not hasattr(s, "value"):
        return {"?": repr(s)}
    return [_num(s.value), _enum(getattr(s, "unit", None))]


def _layout(l):
    if l is None:
        return None
    if not hasattr(l, "origin"):
        return {"?": repr(l)}
    o, e, p, a = l.origin, l.extent, l.padding, l.alignment
    return {
        "origin": None if o is None else [_size(getattr(o, "x", None)), _size(getattr(o, "y", None))],
        "extent": None if e is None else [_size(getattr(e, "horizontal", None)), _size(getattr(e, "vertical", None))],
        "padding": None if p is None else [_size(getattr(p, k, None)) for k in ("before", "after", "start", "end")],
        "alignment": None if a is None else [_enum(getattr(a, "horizontal", None)), _enum(getattr(a, "vertical", None))],
        "webvtt": _plain(getattr(l, "webvtt_positioning", None)),
    }


def _plain(v, depth=0):
    """Style values: str/bool/number/list/dict, possibly nested."""
    if depth > 6:
        return "<deep>"
    if v is None or isinstance(v, (bool, str)):
        return v
    if isinstance(v, (int, float)):
        return _num(v)
    if isinstance(v, dict):
        return {"{}": sorted(([str(k), _plain(x, depth + 1)] for k, x in v.items()), key=lambda kv: kv[0])}
    if isinstance(v, (list, tuple)):
        return [_plain(x, depth + 1) for x in v]
    if hasattr(v, "origin") and hasattr(v, "extent"):
        return {"layout": _layout(v)}
    return {"?": _opaque(v, depth)}


def _node(n):
    return {
        "type": getattr(n, "type_", None),
        "content": _plain(getattr(n, "content", None)),
        "start": getattr(n, "start", None),
        "layout": _layout(getattr(n, "layout_info", None)),
        "position": _plain(getattr(n, "position", None)),
    }


def _num(v):
    """Numbers by value: 1000000 and 1000000.0 compare equal, so they dump the same (the properties speak of sets
    that *compare equal* to a snapshot); anything that is not a plain number by repr."""
    if isinstance(v, bool):
        return repr(v)
    if isinstance(v, int):
        return repr(v)
    if isinstance(v, float):
        if v == v and v not in (float("inf"), float("-inf")) and v.is_integer():
            return repr(int(v))
        return repr(v)
    if v is None or isinstance(v, (str, bytes)) or type(v).__repr__ is not object.__repr__:
        return repr(v)
    return json.dumps(_opaque(v), sort_keys=True)


def _caption(c):
    return {
        "start": _num(getattr(c, "start", None)),
        "end": _num(getattr(c, "end", None)),
        "style": _plain(getattr(c, "style", None)),
        "layout": _layout(getattr(c, "layout_info", None)),
        "nodes": [_node(n) for n in getattr(c, "nodes", [])],
    }


def structure(cs):
    langs = cs.get_languages()
    out = {"languages": list(langs), "layout": _layout(getattr(cs, "layout_info", None)),
           "styles": [[str(k), _plain(v)] for k, v in cs.get_styles()], "per_lang": []}
    for lang in langs:
        caps = cs.get_captions(lang)
        out["per_lang"].append({
            "lang": lang,
            "list_layout": _layout(getattr(caps, "layout_info", None)),
            "captions": [_caption(c) for c in caps],
        })
    return out


def dump(cs):
    """Canonical multi-line text of a caption set (stable across hash seeds by construction)."""
    return json.dumps(structure(cs), sort_keys=True, indent=1, ensure_ascii=True)


def summary(cs):
    s = structure(cs)
    return {"languages": s["languages"], "captions": [len(p["captions"]) for p in s["per_lang"]],
            "styles": len(s["styles"])}
