"""python3-vt tools/validate.py : validate MANIFEST.json and evidence/*.json against the given schemas."""
import glob, json, sys, jsonschema
ok = True
m = json.load(open("/verif/MANIFEST.json"))
jsonschema.validate(m, json.load(open("/root/.vp/MANIFEST.schema.json")))
print("MANIFEST ok; claimed", [c["property_id"] for c in m["checks"]], "n/a", len(m.get("not_applicable", [])))
es = json.load(open("/root/.vp/EVIDENCE.schema.json"))
for f in sorted(glob.glob("/verif/evidence/*.json")):
    try:
        jsonschema.validate(json.load(open(f)), es)
        print(f, "ok")
    except Exception as e:
        ok = False
        print(f, "INVALID", str(e)[:300])
sys.exit(0 if ok else 1)
