"""Confirm and file a seeded change (made by an independent sub-agent) under /verif/seeded/<id>/.

  python tools/seeded.py add <id> <property> <patch.diff> <demo.py> <notes.md> [seed ...]
  python tools/seeded.py rerun [<id> ...]      re-run the quick check against filed changes, update meta.json

Everything happens in scratch copies under /dev/shm; /repo is never touched."""
import json
import os
import shutil
import subprocess
import sys
import time

sys.path.insert(0, os.path.dirname(os.path.abspath(__file__)))
import mutate  # noqa: E402

VERIF = mutate.VERIF
SEEDED = os.path.join(VERIF, "seeded")


def demo_rc(d, demo):
    env = dict(os.environ)
    env["PYTHONPATH"] = d
    env["PYTHONDONTWRITEBYTECODE"] = "1"
    r = subprocess.run(["/venv/bin/python", demo], cwd=d, env=env, capture_output=True, text=True, timeout=600)
    return r.returncode, (r.stdout + r.stderr)[-400:]


def confirm(patch, demo):
    d = mutate.scratch()
    try:
        shutil.copy(demo, os.path.join(d, "demo_seeded.py"))
        clean_rc, clean_out = demo_rc(d, "demo_seeded.py")
        p = subprocess.run(["patch", "-p1", "-s", "-d", d, "-i", patch], capture_output=True, text=True)
        if p.returncode != 0:
            return {"error": "patch failed " + p.stdout + p.stderr}
        passed, failed, tail = mutate.run_tests(d)
        bad_rc, bad_out = demo_rc(d, "demo_seeded.py")
        return {"demo_clean_rc": clean_rc, "demo_patched_rc": bad_rc, "demo_patched_tail": bad_out, "tests_passed": passed,
                "tests_failed": failed}
    finally:
        shutil.rmtree(d, ignore_errors=True)


def add(id_, prop, patch, demo, notes, seeds):
    dst = os.path.join(SEEDED, id_)
    os.makedirs(dst, exist_ok=True)
    shutil.copy(patch, os.path.join(dst, "patch.diff"))
    shutil.copy(demo, os.path.join(dst, "demo.py"))
    if notes and os.path.exists(notes):
        shutil.copy(notes, os.path.join(dst, "notes.md"))
    conf = confirm(os.path.join(dst, "patch.diff"), os.path.join(dst, "demo.py"))
    ok = conf.get("demo_clean_rc") == 0 and conf.get("demo_patched_rc", 0) != 0 and conf.get("tests_passed") == 217 \
        and conf.get("tests_failed") == 0
    res = mutate.run_patch(os.path.join(dst, "patch.diff"), prop, seeds=tuple(seeds) or ("", "1"))
    meta = {"id": id_, "property": prop, "confirmed": ok, "confirmation": conf,
            "needs": open(os.path.join(dst, "notes.md")).read()[:1500] if os.path.exists(os.path.join(dst, "notes.md")) else "",
            "ran": ["demo on clean scratch copy (exit %s), demo with patch (exit %s), pinned test suite with patch (%s passed, %s failed)" % (
                conf.get("demo_clean_rc"), conf.get("demo_patched_rc"), conf.get("tests_passed"), conf.get("tests_failed")),
                "./run_check.sh %s quick with VERIF_REPO=<scratch copy + patch> for seeds %s" % (prop, [r.get("seed") for r in res])],
            "check_results": res, "caught": all(r.get("check_exit") == 1 and r.get("violations", 0) > 0 for r in res),
            "at": time.strftime("%Y-%m-%dT%H:%M:%SZ", time.gmtime())}
    json.dump(meta, open(os.path.join(dst, "meta.json"), "w"), indent=1)
    print(id_, "confirmed" if ok else "NOT CONFIRMED %s" % conf, "caught" if meta["caught"] else "MISSED",
          [(r.get("seed"), r.get("check_exit"), r.get("violations"), r.get("first", "")[:150]) for r in res])


def rerun(ids):
    for id_ in sorted(os.listdir(SEEDED)):
        if ids and id_ not in ids:
            continue
        dst = os.path.join(SEEDED, id_)
        mp = os.path.join(dst, "meta.json")
        if not os.path.exists(mp):
            continue
        meta = json.load(open(mp))
        if meta.get("expect") == "quiet" or meta.get("status") in ("superseded", "out-of-scope"):
            continue
        res = mutate.run_patch(os.path.join(dst, "patch.diff"), meta["property"], seeds=("", "1"))
        meta["check_results"] = res
        meta["caught"] = all(r.get("check_exit") == 1 and r.get("violations", 0) > 0 for r in res)
        meta["at"] = time.strftime("%Y-%m-%dT%H:%M:%SZ", time.gmtime())
        json.dump(meta, open(mp, "w"), indent=1)
        print(id_, "caught" if meta["caught"] else "MISSED",
              [(r.get("seed"), r.get("check_exit"), r.get("violations"), r.get("first", "")[:150]) for r in res])
        sys.stdout.flush()


if __name__ == "__main__" and sys.argv[1] in ("add", "rerun"):
    if sys.argv[1] == "add":
        add(sys.argv[2], sys.argv[3], sys.argv[4], sys.argv[5], sys.argv[6], sys.argv[7:])
    else:
        rerun(sys.argv[2:])


def add_quiet(id_, patch, notes):
    """A property-preserving change: all three checks must stay silent on it."""
    dst = os.path.join(SEEDED, id_)
    os.makedirs(dst, exist_ok=True)
    shutil.copy(patch, os.path.join(dst, "patch.diff"))
    if notes and os.path.exists(notes):
        shutil.copy(notes, os.path.join(dst, "notes.md"))
    res = {}
    quiet = True
    for prop in ("C09", "C10", "C20"):
        r = mutate.run_patch(os.path.join(dst, "patch.diff"), prop, seeds=("", "1"))
        res[prop] = r
        quiet = quiet and all(x.get("check_exit") == 0 and x.get("violations", 0) == 0 for x in r)
    meta = {"id": id_, "property": "none (specificity: C09, C10 and C20 all still hold)", "expect": "quiet",
            "needs": open(os.path.join(dst, "notes.md")).read()[:2500] if os.path.exists(os.path.join(dst, "notes.md")) else "",
            "ran": ["pinned test suite with patch", "./run_check.sh C09|C10|C20 quick with VERIF_REPO=<scratch copy + patch>, default seed and VERIF_SEED=1"],
            "check_results": res, "quiet": quiet, "at": time.strftime("%Y-%m-%dT%H:%M:%SZ", time.gmtime())}
    json.dump(meta, open(os.path.join(dst, "meta.json"), "w"), indent=1)
    print(id_, "QUIET as expected" if quiet else "*** ALARM ***",
          {p: [(x.get("seed"), x.get("tests_passed"), x.get("check_exit"), x.get("violations"), x.get("first", "")[:160]) for x in r] for p, r in res.items()})


if __name__ == "__main__" and sys.argv[1] == "addquiet":
    add_quiet(sys.argv[2], sys.argv[3], sys.argv[4])
