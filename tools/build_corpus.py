"""Snapshot the literal documents of /repo/tests/fixtures/*.py and /repo/examples
into /verif/corpus/corpus.json (done once; the corpus is committed so checks do
not depend on the test tree staying as it is)."""
import ast, json, os, sys

REPO = sys.argv[1] if len(sys.argv) > 1 else "/repo"
FMT = {"dfxp.py": "dfxp", "microdvd.py": "microdvd", "sami.py": "sami",
       "scc.py": "scc", "srt.py": "srt", "webvtt.py": "webvtt"}
EX = {"example.sami": "sami", "example.scc": "scc", "example.srt": "srt",
      "example.sub": "microdvd", "example.vtt": "webvtt", "example.xml": "dfxp"}
out = {}
for fn, fmt in sorted(FMT.items()):
    tree = ast.parse(open(os.path.join(REPO, "tests/fixtures", fn), encoding="utf-8").read())
    for node in tree.body:
        if isinstance(node, ast.FunctionDef):
            for st in ast.walk(node):
                if isinstance(st, ast.Return) and st.value is not None:
                    try:
                        v = ast.literal_eval(st.value)
                    except Exception:
                        continue
                    if isinstance(v, str):
                        out[f"{fmt}/{node.name}"] = {"fmt": fmt, "text": v}


def cut(fmt, text, limit=6000):
    """Cut long example files at a structure boundary so they stay readable docs."""
    if len(text) <= limit:
        return text
    if fmt == "sami":
        k = text.lower().rfind("<sync", 0, limit)
        return text[:k] + "</BODY></SAMI>\n"
    if fmt == "dfxp":
        k = text.rfind("<p ", 0, limit)
        return text[:k] + "</div></body></tt>\n"
    k = text.rfind("\n\n", 0, limit)
    return text[:k + 1]


for fn, fmt in sorted(EX.items()):
    text = open(os.path.join(REPO, "examples", fn), encoding="utf-8").read()
    out[f"{fmt}/example_{fn.split('.')[1]}"] = {"fmt": fmt, "text": cut(fmt, text)}

json.dump(out, open(os.path.join(os.path.dirname(__file__), "..", "corpus", "corpus.json"), "w"),
          indent=0, sort_keys=True, ensure_ascii=True)
from collections import Counter
print(len(out), Counter(v["fmt"] for v in out.values()))
