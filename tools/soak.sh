#!/bin/sh
# usage: tools/soak.sh <first seed> <last seed> [tier]   -- runs all three checks for each seed, prints one line per run
cd "$(dirname "$0")/.." || exit 2
TIER="${3:-quick}"
bad=0
for s in $(seq "$1" "$2"); do
  for p in C09 C10 C20; do
    out=$(VERIF_SEED=$s ./run_check.sh $p "$TIER" 2>&1); rc=$?
    echo "seed=$s prop=$p rc=$rc $(echo "$out" | grep -c '^VIOLATION') violations $(echo "$out" | grep -c 'HARNESS-ERROR') harness-errors"
    if [ $rc -ne 0 ]; then bad=$((bad+1)); echo "$out" | grep -A12 'VIOLATION\|HARNESS-ERROR' | cut -c1-300 | head -40; fi
  done
done
echo "soak done: $bad non-zero exits"
[ $bad -eq 0 ]
