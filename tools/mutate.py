"""Sensitivity / specificity harness (DESIGN 2.8).

  python tools/mutate.py build            -> writes /verif/mutants/<name>.diff  (against /repo HEAD)
  python tools/mutate.py run [name ...]   -> for each mutant: scratch copy in /dev/shm, apply, run the
                                             pinned test suite, run the quick check(s) with VERIF_REPO,
                                             record in /verif/mutants/results.json; scratch removed.
Mutants marked expect="catch" must be reported (exit 1 + VIOLATION), expect="quiet" must stay silent.
Nothing here ever touches /repo.
"""
import json
import os
import re
import shutil
import subprocess
import sys
import tempfile
import time

VERIF = os.path.dirname(os.path.dirname(os.path.abspath(__file__)))
REPO = "/repo"
MUT = os.path.join(VERIF, "mutants")

M = []


def mut(name, prop, expect, edits, note=""):
    M.append({"name": name, "property": prop, "expect": expect, "edits": edits, "note": note})


# ------------------------------------------------------------------ reverse of the six fixes
mut("rev_D1_sami_langs_set", "C10", "catch", [("pycaption/sami.py", "        self.langs = []\n", "        self.langs = set()\n"),
    ("pycaption/sami.py", "            if lang not in self.langs:\n                self.langs.append(lang)\n", "            self.langs.add(lang)\n")])
mut("rev_D2_captionset_default_styles", "C10", "catch", [("pycaption/base.py", "def __init__(self, captions, styles=None, layout_info=None):", "def __init__(self, captions, styles={}, layout_info=None):"),
    ("pycaption/base.py", "self._styles = {} if styles is None else styles", "self._styles = styles")])
mut("rev_D3_caption_default_style", "C10", "catch", [("pycaption/base.py", "def __init__(self, start, end, nodes, style=None, layout_info=None):", "def __init__(self, start, end, nodes, style={}, layout_info=None):"),
    ("pycaption/base.py", "self.style = {} if style is None else style", "self.style = style")])
mut("rev_D4_scc_no_reset", "C10", "catch", [("pycaption/scc/__init__.py", "        self._reset_decoder_state()\n        self.simulate_roll_up", "        self.simulate_roll_up")])
mut("rev_D5_srt_detect_index", "C20", "catch", [("pycaption/srt.py", "if len(lines) >= 2 and lines[0].isdigit()", "if lines[0].isdigit()")])
mut("rev_D6_dfxp_open_span", "C09", "catch", [("pycaption/dfxp/base.py", "        self.open_span = False\n\n        langs = caption_set.get_languages()", "\n        langs = caption_set.get_languages()")])
mut("rev_D6_legacy_open_span", "C09", "catch", [("pycaption/dfxp/extras.py", "        self.open_span = False\n        caption_set = deepcopy(caption_set)", "        caption_set = deepcopy(caption_set)")])
mut("rev_D6_sami_open_span", "C09", "catch", [("pycaption/sami.py", "        self.open_span = False\n        caption_set = deepcopy(caption_set)", "        caption_set = deepcopy(caption_set)")])

mut("rev_D7_negative_extent", "C20", "catch", [("pycaption/geometry.py", "            diff_horizontal = Size(\n                max(90 - self.origin.x.value, 0), UnitEnum.PERCENT)\n            diff_vertical = Size(\n                max(95 - self.origin.y.value, 0), UnitEnum.PERCENT)\n",
    "            diff_horizontal = Size(90 - self.origin.x.value, UnitEnum.PERCENT)\n            diff_vertical = Size(95 - self.origin.y.value, UnitEnum.PERCENT)\n")],
    note="reverse of fix D7")
mut("rev_D9_scc_negative_timecode", "C20", "catch", [("pycaption/scc/__init__.py", "            code_start = max(start - code_time_microseconds, 0)\n", "            code_start = start - code_time_microseconds\n")],
    note="reverse of fix D9")
mut("rev_D10_cssutils_flag_not_restored", "C10", "catch", [("pycaption/sami.py", "        raise_exceptions = log.raiseExceptions\n        try:\n            sheet = parseString(css)\n        finally:\n            log.raiseExceptions = raise_exceptions\n", "        sheet = parseString(css)\n")],
    note="reverse of fix D10: cssutils leaves its global raiseExceptions flag off when a stylesheet parse raises")

# ------------------------------------------------------------------------------ C09 mutants
mut("c09_sami_no_deepcopy", "C09", "catch", [("pycaption/sami.py", "        caption_set = deepcopy(caption_set)\n        sami = BeautifulSoup(SAMI_BASE_MARKUP", "        sami = BeautifulSoup(SAMI_BASE_MARKUP")])
mut("c09_dfxp_no_deepcopy", "C09", "catch", [("pycaption/dfxp/base.py", "        caption_set = deepcopy(caption_set)\n\n        # Loop through all captions/nodes", "        # Loop through all captions/nodes")])
mut("c09_legacy_no_deepcopy", "C09", "catch", [("pycaption/dfxp/extras.py", "        caption_set = deepcopy(caption_set)\n        caption_set = merge_concurrent_captions(caption_set)\n\n        dfxp = BeautifulSoup(LEGACY", "        caption_set = merge_concurrent_captions(caption_set)\n\n        dfxp = BeautifulSoup(LEGACY")])
mut("c09_singlepos_no_deepcopy", "C09", "catch", [("pycaption/dfxp/extras.py", "        caption_set = deepcopy(caption_set)\n        caption_set = merge_concurrent_captions(caption_set)\n        caption_set.layout_info = positioning", "        caption_set = merge_concurrent_captions(caption_set)\n        caption_set.layout_info = positioning")])
mut("c09_dfxp_deepcopy_after_relativize", "C09", "catch", [
    ("pycaption/dfxp/base.py", "        caption_set = deepcopy(caption_set)\n\n        # Loop through all captions/nodes", "        # Loop through all captions/nodes"),
    ("pycaption/dfxp/base.py", "        # Create the styles in the <styling> section, or a default style.\n", "        caption_set = deepcopy(caption_set)\n        # Create the styles in the <styling> section, or a default style.\n")])
mut("c09_sami_last_time_not_reset", "C09", "catch", [("pycaption/sami.py", "            self.last_time = None\n            if primary is None:", "            if primary is None:")])
mut("c09_webvtt_global_layout_sticky", "C09", "catch", [("pycaption/webvtt.py", "        self.global_layout = caption_set.get_layout_info(lang)\n", "        if self.global_layout is None:\n            self.global_layout = caption_set.get_layout_info(lang)\n")])
mut("c09_dfxp_region_creator_reused", "C09", "catch", [("pycaption/dfxp/base.py", "        self.region_creator = self._get_region_creator_class()(\n            dfxp, caption_set)\n", "        if self.region_creator is None:\n            self.region_creator = self._get_region_creator_class()(\n                dfxp, caption_set)\n        else:\n            self.region_creator._dfxp = dfxp\n            self.region_creator._caption_set = caption_set\n")])
mut("c09_orderedset_is_set", "C09", "catch", [("pycaption/dfxp/base.py", "        unique_regions = _OrderedSet()\n", "        unique_regions = set()\n")],
    note="the pinned suite itself fails for some PYTHONHASHSEED values with this change (7 tests under an unlucky seed, none under others): kept because it is the anchor's named mechanism")
mut("c09_fit_to_screen_mutates_self", "C09", "quiet", [("pycaption/geometry.py", "            return Layout(\n                origin=self.origin,\n                extent=new_extent,\n                padding=self.padding,\n                alignment=self.alignment\n", "            self.extent = new_extent\n            return Layout(\n                origin=self.origin,\n                extent=new_extent,\n                padding=self.padding,\n                alignment=self.alignment\n")],
    note="specificity: writers only ever call fit_to_screen on their own deep copy or on fresh objects from as_percentage_of, so the input stays intact and the output stays deterministic: C09 holds")
mut("c09_module_default_not_restored", "C09", "catch", [("pycaption/dfxp/base.py",
    "        for style_id, style in caption_set.get_styles():\n            if style != {}:\n                dfxp = self._recreate_styling_tag(style_id, style, dfxp)\n        if not caption_set.get_styles():",
    "        saved_default = dict(DFXP_DEFAULT_STYLE)\n        DFXP_DEFAULT_STYLE['color'] = 'yellow'\n        for style_id, style in caption_set.get_styles():\n            if style != {}:\n                dfxp = self._recreate_styling_tag(style_id, style, dfxp)\n        DFXP_DEFAULT_STYLE.update(saved_default)\n        if not caption_set.get_styles():")],
    note="a module-level default overwritten and restored without try/finally: only an exception between the two lines (F2) leaves it changed")
mut("c09_srt_merges_in_place", "C09", "catch", [("pycaption/srt.py", "        caption_set = deepcopy(caption_set)\n\n        srt_captions = []", "        srt_captions = []"),
    ("pycaption/srt.py", "                merged_captions[-1] = Caption(\n                    start=caption.start,\n                    end=caption.end,\n                    nodes=(merged_captions[-1].nodes\n                           + [CaptionNode.create_break()]\n                           + caption.nodes))", "                merged_captions[-1].nodes.append(CaptionNode.create_break())\n                merged_captions[-1].nodes.extend(caption.nodes)")])
mut("c09_webvtt_no_deepcopy_style_pop", "C09", "catch", [("pycaption/webvtt.py", "        caption_set = deepcopy(caption_set)\n\n        # TODO: styles.", "        # TODO: styles."),
    ("pycaption/webvtt.py", "            sub_style = caption_set.get_style(style_class).copy()", "            sub_style = caption_set.get_style(style_class)\n            sub_style.pop('class', None)")])

# ------------------------------------------------------------------------------ C10 mutants
mut("c10_sami_parser_class_level_state", "C10", "catch", [("pycaption/sami.py", "class SAMIParser(HTMLParser):\n    def __init__(self, *args, **kw):\n        HTMLParser.__init__(self, *args, **kw)\n        self.sami = ''\n        self.line = ''\n        self.styles = {}\n        self.queue = deque()\n        # languages in order of first appearance (a set would make the order of\n        # the resulting CaptionSet's languages depend on the hash seed)\n        self.langs = []\n",
    "class SAMIParser(HTMLParser):\n    langs = []\n\n    def __init__(self, *args, **kw):\n        HTMLParser.__init__(self, *args, **kw)\n        self.sami = ''\n        self.line = ''\n        self.styles = {}\n        self.queue = deque()\n")])
mut("c10_dfxp_reader_accumulates", "C10", "catch", [("pycaption/dfxp/base.py", "        self.nodes = []\n\n    def detect(self, content):", "        self.nodes = []\n        self._caption_dict = {}\n\n    def detect(self, content):"),
    ("pycaption/dfxp/base.py", "        caption_dict = {}\n        style_dict = {}\n\n        default_language", "        caption_dict = self._caption_dict\n        style_dict = {}\n\n        default_language")])
mut("c10_sami_translate_attrs_mutable_default", "C10", "catch", [("pycaption/sami.py", "    def _translate_attrs(self, tag):\n        attrs = {}\n", "    def _translate_attrs(self, tag, attrs={}):\n")])
for field, line in (("last_command", '        self.last_command = ""\n'), ("double_starter", "        self.double_starter = False\n"),
                    ("roll_rows", "        self.roll_rows = []\n"), ("pop_ons_queue", "        self.pop_ons_queue = deque()\n"),
                    ("time", "        self.time = 0\n"), ("time_translator", "        self.time_translator = _SccTimeTranslator()\n"),
                    ("roll_rows_expected", "        self.roll_rows_expected = 0\n")):
    # partial reset: the field is created once in __init__ and not re-created per read
    mut("c10_scc_partial_reset_" + field, "C10", "quiet" if field in ("time_translator", "roll_rows") else "catch", [
        ("pycaption/scc/__init__.py", "    def __init__(self, *args, **kw):\n        self._reset_decoder_state()\n",
         "    def __init__(self, *args, **kw):\n" + line + "        self._reset_decoder_state()\n"),
        ("pycaption/scc/__init__.py", "returns does not depend on what it has read before.\"\"\"\n", "returns does not depend on what it has read before.\"\"\"\n        _keep = self.%s\n" % field),
        ("pycaption/scc/__init__.py", "        self.roll_rows_expected = 0\n        self.simulate_roll_up = False\n\n        self.time = 0\n", "        self.roll_rows_expected = 0\n        self.simulate_roll_up = False\n\n        self.time = 0\n        self.%s = _keep\n" % field)],
        note="equivalent mutant: the translator's offset is set by every read() and start_at() resets it at every line, so keeping the object changes nothing observable" if field == "time_translator" else "equivalent mutant: roll_rows is only consulted while roll_rows_expected > 1, and the only commands that set that (RU2/3/4) also clear roll_rows" if field == "roll_rows" else "partial reset of the SCC decoder: one field survives from the previous read() on the same reader object")
mut("c10_scc_partial_reset_position_tracker", "C10", "catch", [
    ("pycaption/scc/__init__.py", "    def __init__(self, *args, **kw):\n        self._reset_decoder_state()\n", "    def __init__(self, *args, **kw):\n        self._tracker = DefaultProvidingPositionTracker()\n        self._reset_decoder_state()\n"),
    ("pycaption/scc/__init__.py", "        self.node_creator_factory = NodeCreatorFactory(\n            DefaultProvidingPositionTracker()\n        )", "        self.node_creator_factory = NodeCreatorFactory(\n            self._tracker\n        )")])
mut("c10_webvtt_layout_cache_by_settings", "C10", "quiet", [("pycaption/webvtt.py", "class WebVTTReader(BaseReader):\n", "_LAYOUT_CACHE = {}\n\n\nclass WebVTTReader(BaseReader):\n"),
    ("pycaption/webvtt.py", "            layout_info = Layout(webvtt_positioning=cue_settings)\n", "            layout_info = _LAYOUT_CACHE.setdefault(\n                cue_settings, Layout(webvtt_positioning=cue_settings))\n")],
    note="specificity: immutable geometry flyweights shared between sets are allowed by the module convention")
mut("c10_microdvd_fps_sticky", "C10", "catch", [("pycaption/microdvd.py", "class MicroDVDReader(BaseReader):\n", "class MicroDVDReader(BaseReader):\n    _fps = 25.0\n\n"),
    ("pycaption/microdvd.py", "        fps = 25.0\n        for line in lines:", "        fps = self._fps\n        for line in lines:"),
    ("pycaption/microdvd.py", "                    fps = float(txt)\n                    continue", "                    fps = float(txt)\n                    MicroDVDReader._fps = fps\n                    continue")],
    note="class-level state: a document with an fps header changes how later header-less documents are read, by any reader object")
mut("c10_srt_reader_keeps_captions", "C10", "catch", [("pycaption/srt.py", "class SRTReader(BaseReader):\n    def detect", "class SRTReader(BaseReader):\n    def __init__(self, *args, **kwargs):\n        super().__init__(*args, **kwargs)\n        self._captions = CaptionList()\n\n    def detect"),
    ("pycaption/srt.py", "        start_line = 0\n        captions = CaptionList()\n", "        start_line = 0\n        captions = self._captions\n")])

# ------------------------------------------------------------------------------ C20 mutants
mut("c20_readers_reordered", "C20", "catch", [("pycaption/__init__.py", "    DFXPReader, MicroDVDReader, WebVTTReader, SAMIReader, SRTReader, SCCReader,", "    DFXPReader, MicroDVDReader, SAMIReader, WebVTTReader, SRTReader, SCCReader,")])
mut("c20_last_match_wins", "C20", "catch", [("pycaption/__init__.py", "    for reader in SUPPORTED_READERS:\n        if reader().detect(caps):\n            return reader\n\n    return None", "    found = None\n    for reader in SUPPORTED_READERS:\n        if reader().detect(caps):\n            found = reader\n\n    return found")])
mut("c20_empty_guard_removed", "C20", "catch", [("pycaption/__init__.py", "    if not len(caps):\n        raise CaptionReadNoCaptions(\"Empty caption file\")\n", "")])
mut("c20_scc_detect_second_line", "C20", "catch", [("pycaption/scc/__init__.py", "        if lines[0] == HEADER:\n            return True", "        if lines[0] == HEADER and lines[1] == \"\":\n            return True")])
mut("c20_microdvd_detect_search", "C20", "quiet", [("pycaption/microdvd.py", "        return re.match(r\"{\\d+}{\\d+}\", content) is not None", "        return re.search(r\"{\\d+}{\\d+}\", content) is not None")],
    note="specificity: changes which strings a sniffer accepts, not the rule C20 states")
mut("c20_webvtt_detect_startswith", "C20", "quiet", [("pycaption/webvtt.py", "        return \"WEBVTT\" in content", "        return content.startswith(\"WEBVTT\")")],
    note="specificity: tightened sniffer; own output still starts with WEBVTT")
mut("c20_detect_swallows_but_srt_first", "C20", "catch", [("pycaption/__init__.py", "    DFXPReader, MicroDVDReader, WebVTTReader, SAMIReader, SRTReader, SCCReader,", "    SRTReader, DFXPReader, MicroDVDReader, WebVTTReader, SAMIReader, SCCReader,")])

mut("c20_microdvd_sniffer_memo_prefix", "C20", "catch", [("pycaption/microdvd.py", "class MicroDVDReader(BaseReader):\n    def detect(self, content):\n        return re.match(r\"{\\d+}{\\d+}\", content) is not None\n",
    "class MicroDVDReader(BaseReader):\n    _sniffed = {}\n\n    def detect(self, content):\n        key = content[:6]\n        if key not in self._sniffed:\n            self._sniffed[key] = re.match(r\"{\\d+}{\\d+}\", content) is not None\n        return self._sniffed[key]\n")],
    note="a class-level memo keyed on a prefix: the answer for a string depends on what was sniffed before (caught by sniffing every batch in both orders)")
mut("c20_detect_full_content_memo", "C20", "quiet", [("pycaption/__init__.py", "def detect_format(caps):", "_DETECTED = {}\n\n\ndef detect_format(caps):"),
    ("pycaption/__init__.py", "    for reader in SUPPORTED_READERS:\n        if reader().detect(caps):\n            return reader\n\n    return None", "    if caps in _DETECTED:\n        return _DETECTED[caps]\n    for reader in SUPPORTED_READERS:\n        if reader().detect(caps):\n            _DETECTED[caps] = reader\n            return reader\n\n    _DETECTED[caps] = None\n    return None")],
    note="specificity: a memo keyed on the whole content never changes an answer")

# ------------------------------------------------------------------- specificity (must stay quiet)
mut("quiet_scc_reset_also_at_end", "C10", "quiet", [("pycaption/scc/__init__.py", "            fix_last_captions_without_ending(captions.get_captions(lang))\n\n        return captions", "            fix_last_captions_without_ending(captions.get_captions(lang))\n\n        self._reset_decoder_state()\n        return captions")])
mut("quiet_error_messages_changed", "C10", "quiet", [("pycaption/microdvd.py", "raise CaptionReadNoCaptions(\"Empty caption file\")", "raise CaptionReadNoCaptions(\"the MicroDVD document holds no captions\")"),
    ("pycaption/geometry.py", "\"At least one of video width or height\"", "\"Neither video width nor height was given; one\"")])
mut("quiet_srt_writer_no_deepcopy", "C09", "quiet", [("pycaption/srt.py", "        caption_set = deepcopy(caption_set)\n\n        srt_captions = []", "        srt_captions = []")],
    note="SRTWriter never mutates its input, so dropping its defensive copy changes nothing observable")
mut("quiet_sami_reader_stateless", "C10", "quiet", [("pycaption/sami.py", "                self.first_alignment = None\n\n                caption = Caption(start, end, self.line, styles, caption_layout)", "                self.first_alignment = None\n                line, self.line = self.line, []\n\n                caption = Caption(start, end, line, styles, caption_layout)")])


def _apply(root, edits):
    for path, old, new in edits:
        p = os.path.join(root, path)
        s = open(p, encoding="utf-8").read()
        if s.count(old) != 1:
            raise SystemExit("edit anchor not unique/present (%d) in %s: %r" % (s.count(old), path, old[:60]))
        open(p, "w", encoding="utf-8").write(s.replace(old, new))


def scratch():
    d = tempfile.mkdtemp(prefix="pcmut-", dir="/dev/shm")
    subprocess.run(["rsync", "-a", "--exclude", ".git", "--exclude", "__pycache__", REPO + "/", d + "/"], check=True)
    return d


def build():
    os.makedirs(MUT, exist_ok=True)
    for m in M:
        d = scratch()
        try:
            _apply(d, m["edits"])
            files = sorted({e[0] for e in m["edits"]})
            out = ""
            for f in files:
                r = subprocess.run(["diff", "-u", "--label", "a/" + f, "--label", "b/" + f, os.path.join(REPO, f), os.path.join(d, f)],
                                   capture_output=True, text=True)
                out += r.stdout
            header = "# mutant %s  property=%s  expect=%s\n# %s\n" % (m["name"], m["property"], m["expect"], m["note"])
            open(os.path.join(MUT, m["name"] + ".diff"), "w").write(header + out)
        finally:
            shutil.rmtree(d, ignore_errors=True)
    print("built", len(M), "mutant diffs in", MUT)


def run_tests(d):
    env = dict(os.environ)
    env["PYTHONPATH"] = d
    env["PYTHONDONTWRITEBYTECODE"] = "1"
    r = subprocess.run(["/venv/bin/python", "-m", "pytest", "-q", "-p", "no:cacheprovider", "--timeout=900",
                        "--continue-on-collection-errors"], cwd=d, env=env, capture_output=True, text=True)
    m = re.search(r"(\d+) passed", r.stdout)
    f = re.search(r"(\d+) failed", r.stdout)
    return int(m.group(1)) if m else 0, int(f.group(1)) if f else 0, r.stdout[-300:]


def run(names, seeds=(None,)):
    res_path = os.path.join(MUT, "results.json")
    results = json.load(open(res_path)) if os.path.exists(res_path) else {}
    for m in M:
        if names and m["name"] not in names:
            continue
        d = scratch()
        try:
            p = subprocess.run(["patch", "-p1", "-s", "-d", d, "-i", os.path.join(MUT, m["name"] + ".diff")], capture_output=True, text=True)
            if p.returncode != 0:
                print(m["name"], "PATCH FAILED", p.stdout, p.stderr)
                continue
            passed, failed, tail = run_tests(d)
            env = dict(os.environ)
            env["VERIF_REPO"] = d
            t0 = time.time()
            r = subprocess.run([os.path.join(VERIF, "run_check.sh"), m["property"], "quick"], env=env, capture_output=True, text=True)
            wall = time.time() - t0
            viol = [l for l in r.stdout.splitlines() if l.startswith("VIOLATION")]
            detail = [l for l in r.stdout.splitlines() if l.startswith("  V") or l.startswith("  detect") or l.startswith("  own")]
            caught = r.returncode == 1 and bool(viol)
            ok = (caught if m["expect"] == "catch" else (r.returncode == 0 and not viol))
            results[m["name"]] = {"property": m["property"], "expect": m["expect"], "tests_passed": passed, "tests_failed": failed,
                                  "check_exit": r.returncode, "violations": len(viol), "first": (detail[0][:300] if detail else ""),
                                  "as_expected": ok, "wall_s": round(wall, 1), "note": m["note"]}
            print("%-45s tests=%d/%d check_exit=%d violations=%d %s  %.0fs  %s" % (
                m["name"], passed, failed, r.returncode, len(viol), "OK" if ok else "*** UNEXPECTED ***", wall, detail[0][:160] if detail else ""))
            if r.returncode == 2:
                print(r.stdout[-1500:])
            sys.stdout.flush()
            # replay files written for the scratch tree are not kept
            for l in viol:
                mm = re.search(r"replay=(\S+)", l)
                if mm and os.path.exists(mm.group(1)):
                    os.remove(mm.group(1))
        finally:
            shutil.rmtree(d, ignore_errors=True)
        json.dump(results, open(res_path, "w"), indent=1, sort_keys=True)


if __name__ == "__main__" and len(sys.argv) > 1 and sys.argv[1] in ("build", "run"):
    if sys.argv[1] == "build":
        build()
    else:
        run(sys.argv[2:])


def run_patch(diff_path, prop, seeds=("",), tier="quick"):
    """Apply an arbitrary patch to a scratch copy and run one property's check on it."""
    d = scratch()
    out = []
    try:
        p = subprocess.run(["patch", "-p1", "-s", "-d", d, "-i", diff_path], capture_output=True, text=True)
        if p.returncode != 0:
            return [{"error": "patch failed: " + p.stdout + p.stderr}]
        passed, failed, tail = run_tests(d)
        for sd in seeds:
            env = dict(os.environ)
            env["VERIF_REPO"] = d
            if sd != "":
                env["VERIF_SEED"] = str(sd)
            t0 = time.time()
            r = subprocess.run([os.path.join(VERIF, "run_check.sh"), prop, tier], env=env, capture_output=True, text=True)
            viol = [l for l in r.stdout.splitlines() if l.startswith("VIOLATION")]
            detail = [l for l in r.stdout.splitlines() if l.startswith("  V") or l.startswith("  detect") or l.startswith("  own")]
            out.append({"seed": sd or "default", "tests_passed": passed, "tests_failed": failed, "check_exit": r.returncode,
                        "violations": len(viol), "first": detail[0][:400] if detail else "", "wall_s": round(time.time() - t0, 1),
                        "tail": r.stdout[-600:] if r.returncode not in (0, 1) else ""})
            for l in viol:
                mm = re.search(r"replay=(\S+)", l)
                if mm and os.path.exists(mm.group(1)):
                    os.remove(mm.group(1))
    finally:
        shutil.rmtree(d, ignore_errors=True)
    return out


if __name__ == "__main__" and len(sys.argv) > 1 and sys.argv[1] == "runpatch":
    res = run_patch(sys.argv[2], sys.argv[3], seeds=tuple(sys.argv[4:]) or ("",))
    print(json.dumps(res, indent=1))
