#!/bin/sh
# usage: run_check.sh <property> <tier>     (cwd may be anything; everything is rebuilt from $VERIF_REPO, default /repo)
cd "$(dirname "$0")" || exit 2
PROP="$1"; TIER="${2:-quick}"
case "$TIER" in quick) T=600 ;; *) T=3000 ;; esac
exec timeout "$T" /venv/bin/python -c 'from sim import check; check.main()' --property "$PROP" --tier "$TIER"
